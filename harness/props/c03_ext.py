"""C03, session-3 extension streams (helper module of harness/props/c03.py; own random streams, so the older
streams of c03.py see exactly the inputs they saw before).

  gallery     `cuqi.distribution.DistributionGallery` (cuqi/distribution/_custom.py): the seven benchmark densities with
              hand-written gradients (CalSom91, BivariateGaussian, funnel, mixture, squiggle, donut, banana) with the
              attributes as constructed and re-assigned (non-zero means, other scales), closed form and FD.
              Model: lean/CuqiVerif/Model/C03_gallery.lean, driver op `gal`.
"""
import math
import random
import numpy as np
from fractions import Fraction
from harness.core import quiet, q, qv, qm


def _base():
    from harness.props import c03
    return c03


def _dy(rng, lo, hi, den=4):
    return rng.randint(int(lo * den), int(hi * den)) / den


def _spd2(rng):
    """random symmetric positive definite 2x2 matrix with dyadic entries, not diagonal"""
    while True:
        a = _dy(rng, 0.5, 3); c = _dy(rng, 0.5, 3); b = _dy(rng, -1, 1)
        if b != 0 and a * c - b * b > 0.2:
            return np.array([[a, b], [b, c]], dtype=float)


# ----------------------------------------------------------------------------------------------------------------
def gallery(ctx, cuqi, ncases):
    b = _base()
    D = cuqi.distribution
    rng = random.Random(ctx.seed * 7919 + 303)
    cov = ctx.extra_cov.setdefault("gallery", {})
    internal = ctx.extra_cov.setdefault("model_internal", {})
    internal.setdefault("gallery_grad_ne_model_deriv", 0)

    def bump(k):
        cov[k] = cov.get(k, 0) + 1

    names = ["CalSom91", "BivariateGaussian", "funnel", "mixture", "squiggle", "donut", "banana"]
    REF = np.array([0.5, -0.25])

    def reassign(d, name):
        """assign other values to the attributes the methods read at call time (non-zero means/locations); only attributes
        the object already HAS are assigned (after a rename the mode is skipped instead of testing a dead attribute)"""
        need = {"CalSom91": ("sig", "delta"), "funnel": ("m0", "m1", "s1"), "donut": ("radius", "sigma2"), "mixture": ("G0", "G1", "G2"),
                "squiggle": ("G0",), "banana": ("G0", "a", "b")}.get(name, ())
        if not all(hasattr(d, a) for a in need):
            return False
        if name == "CalSom91":
            d.sig = _dy(rng, 0.25, 2); d.delta = _dy(rng, 0.5, 3)
        elif name == "funnel":
            d.m0 = _dy(rng, -2, 2); d.m1 = _dy(rng, -2, 2); d.s1 = _dy(rng, 0.5, 4)
        elif name == "donut":
            d.radius = _dy(rng, 0.5, 4); d.sigma2 = _dy(rng, 0.25, 2)
        elif name == "mixture":
            for k in range(3):
                m = np.array([_dy(rng, -2, 2), _dy(rng, -2, 2)])
                setattr(d, f"G{k}", D.Gaussian(m, _dy(rng, 0.25, 2)))
        elif name == "squiggle":
            d.G0 = D.Gaussian(np.array([_dy(rng, -1, 1), _dy(rng, -1, 1)]), _spd2(rng))
        elif name == "banana":
            d.G0 = D.Gaussian(np.array([_dy(rng, -1, 1), _dy(rng, 2, 5)]), _spd2(rng))
            d.a = rng.choice([-1, 1]) * _dy(rng, 0.5, 3); d.b = _dy(rng, -1, 1)
        elif name == "BivariateGaussian":
            return False
        return True

    def scal(v):
        return float(np.asarray(v, dtype=float).ravel()[0])

    def line_for(d, name, x):
        """driver line(s) for the object's *current* attributes; None if they cannot be read"""
        x0, x1 = float(x[0]), float(x[1])
        X = qv([x0, x1])
        if name == "CalSom91":
            return f"gal calsom {X} {qv([scal(d.sig), scal(d.delta)])}"
        if name == "funnel":
            return f"gal funnel {X} {qv([scal(d.m0), scal(d.m1), scal(d.s1)])}"
        if name == "donut":
            return f"gal donut {X} {qv([scal(d.radius), scal(d.sigma2)])}"
        if name == "mixture":
            p = []
            for k in range(3):
                g = getattr(d, f"G{k}")
                m = np.asarray(g.mean, dtype=float).ravel(); c = np.asarray(g.cov, dtype=float).ravel()
                if len(m) != 2 or len(c) != 1:
                    return None
                p += [m[0], m[1], c[0]]
            return f"gal mixture {X} {qv(p)}"
        if name in ("squiggle", "banana"):
            g = d.G0
            m = np.asarray(g.mean, dtype=float).ravel(); C = np.asarray(g.cov, dtype=float)
            if len(m) != 2 or C.shape != (2, 2):
                return None
            if name == "squiggle":
                k = 5.0           # the literal of `np.sin(5*x[:, 0])`
                return f"gal squiggle {X} {qv([math.sin(k * x0), math.cos(k * x0), k])} {qv(m)} {qv(C.ravel())}"
            return f"gal banana {X} {qv([scal(d.a), scal(d.b)])} {qv(m)} {qv(C.ravel())}"
        if name == "BivariateGaussian":
            g = d.gradient_func.__self__
            m = np.asarray(g.mean, dtype=float).ravel(); C = np.asarray(g.cov, dtype=float)
            C = (C + C.T) / 2 if np.allclose(C, C.T, rtol=0, atol=1e-15) else C
            return f"gauss cov {X} {qv(m)} {qm(C)}"
        return None

    def points(name):
        pts = [[_dy(rng, -3, 3, 8), _dy(rng, -3, 3, 8)] for _ in range(ncases)]
        # structured points: axes, the unit circle (CalSom91 ridge), the donut's circle, the origin
        pts += [[0.0, _dy(rng, -3, 3)], [_dy(rng, -3, 3), 0.0], [1.0, 0.0], [0.0, -1.0], [0.0, 0.0]]
        return pts

    jobs = []          # (name, mode, d, x, line, refline)
    for name in names:
        if not hasattr(D, "DistributionGallery"):
            ctx.note("DistributionGallery not present"); return
        for mode in ("default", "reassigned"):
            for x in points(name):
                try:
                    with quiet():
                        d = D.DistributionGallery(name)
                        if mode == "reassigned" and not reassign(d, name):
                            continue
                        ln = line_for(d, name, x); ref = line_for(d, name, REF)
                except Exception as e:  # noqa
                    ctx.note(f"gallery {name}: attributes not readable ({e!r}); oracle only"[:200]); ln = ref = None
                jobs.append((name, mode, d, x, ln, ref))
    # one malformed point per name (three entries): `x.reshape((1, 2))` must refuse
    for name in names:
        if name != "BivariateGaussian":
            with quiet():
                d = D.DistributionGallery(name)
            jobs.append((name, "malformed", d, [0.5, 1.0, 2.0], f"gal {name.lower() if name != 'CalSom91' else 'calsom'} {qv([0.5, 1.0, 2.0])} {qv([1.0, 1.0])}", None))

    lines = ["galnames"]
    for j in jobs:
        if j[4] is not None:
            lines.append(j[4])
        if j[5] is not None:
            lines.append(j[5])
    outs = iter((yield lines))
    mnames = next(outs).split(",")
    if sorted(mnames) != sorted(names):
        ctx.note(f"gallery names of the model {mnames} differ from the harness list {names}")

    for name, mode, d, x, ln, ref in jobs:
        mo = next(outs).split() if ln is not None else None
        mref = next(outs).split() if ref is not None else None
        xa = np.array(x, dtype=float)
        desc = {"gallery": name, "mode": mode, "x": x, "line": ln}
        ctx.case(f"gallery-{name}", desc)
        key = f"gallery:{name}:{mode}:closed"
        f_logd = lambda z, d=d: float(np.asarray(d.logd(np.asarray(z, dtype=float))).ravel()[0])
        st, exc, val = b.classify(lambda: d.gradient(xa), 2 if mode != "malformed" else 3)
        bump(f"{name}:{mode}:{st}")
        if mode == "malformed":
            if mo is not None and mo[0] == "raise" and st != "raise":
                ctx.disagree(key, desc, "raise", st, "a point of the wrong length is accepted")
                if st == "value":
                    b.oracle_value(ctx, key, desc, f_logd, val, xa)
            continue
        origin = (x[0] == 0 and x[1] == 0)
        nondiff = origin and name in ("CalSom91", "donut")      # apex of a cone: the log-density has no derivative there
        if mo is not None:
            mst = mo[0]
            if nondiff:
                # the model reproduces what the code returns there (donut: zeros through r := 1e-16; CalSom91: 0/0 = NaN);
                # the property demands nothing at a point where the log-density is not differentiable
                mg = b.decv(mo[2])
                if name == "donut" and not (st == "value" and b.cmp_vec(mg, val.tolist())):
                    ctx.note(f"gallery donut at the origin: model {mg}, code {st} {None if val is None else val.tolist()} (not demanded)")
                bump(f"{name}:origin-not-differentiable")
                continue
            if mst != "value" or st != "value":
                if mst != st:
                    ctx.disagree(key, desc, mst, f"{st}({exc})", "status differs from the model")
                    if st in ("none", "not-vector"):
                        ctx.fail(key, desc, "vector or raise", st, "neither a gradient vector nor a refusal")
                    elif st == "nan":
                        with quiet():
                            l0 = f_logd(xa)
                        if math.isfinite(l0):
                            ctx.fail(key, desc, "finite gradient (logd is finite here)", "NaN", "NaN gradient where the log-density is finite")
                    elif st == "raise":
                        ctx.fail(key, desc, "the closed-form gradient", f"raise({exc})", "the gallery density refuses a point of its domain")
                continue
            mg = b.decv(mo[2])
            if not b.cmp_vec(mg, val.tolist()):
                ctx.disagree(key, desc, mg, val.tolist(), "gradient differs from the model's closed form")
            if name in ("squiggle", "banana", "BivariateGaussian"):
                # log-density up to the normalising constant: differences against a reference point
                if mref is not None and mref[0] == "value":
                    with quiet():
                        dl = f_logd(xa) - f_logd(REF)
                    mdl = -(b.dec(mo[1]) - b.dec(mref[1])) / 2
                    if not b.close(mdl, dl, 1e-9):
                        ctx.disagree(key, desc, mdl, dl, "logd(x) - logd(ref) differs from the model's quadratic form")
            else:
                with quiet():
                    l0 = f_logd(xa)
                ml = b.dec(mo[1])
                if not b.close(ml, l0, 1e-9):
                    ctx.disagree(key, desc, ml, l0, "logd differs from the model's closed form")
                md = b.decv(mo[3])
                if not b.cmp_vec(md, mg, 1e-7):
                    internal["gallery_grad_ne_model_deriv"] += 1     # cannot happen for points covered by the theorems
                    ctx.disagree(key, desc, md, mg, "model: the code's formula is not the symbolic derivative of the logpdf formula")
        elif st != "value":
            if st in ("none", "not-vector"):
                ctx.fail(key, desc, "vector or raise", st, "neither a gradient vector nor a refusal")
            continue
        if st == "value" and not nondiff:
            if b.oracle_value(ctx, key, desc, f_logd, val, xa, in_support=True):
                b.check_variants(ctx, key, desc, d.gradient, xa, val)

    # ---- FD option on the gallery objects: `Density.gradient` -> approx_gradient(self.logd, x, eps) ----
    for name in names:
        for mode in ("default", "reassigned"):
            with quiet():
                d = D.DistributionGallery(name)
                if mode == "reassigned" and not reassign(d, name):
                    continue
            x = [_dy(rng, -2, 2, 8) + 0.0625, _dy(rng, -2, 2, 8) + 0.0625]
            xa = np.array(x, dtype=float)
            eps = rng.choice([1e-5, 1e-6])
            desc = {"gallery": name, "mode": mode, "x": x, "fd": eps}
            ctx.case(f"gallery-{name}", desc)
            key = f"gallery:{name}:{mode}:fd"
            f_logd = lambda z, d=d: float(np.asarray(d.logd(np.asarray(z, dtype=float))).ravel()[0])
            with quiet():
                d.enable_FD(eps)
            st, exc, val = b.classify(lambda: d.gradient(xa), 2)
            bump(f"{name}:{mode}:fd:{st}")
            if st != "value":
                ctx.disagree(key, desc, f"value-fd({eps})", f"{st}({exc})", "FD gradient expected")
                ctx.fail(key, desc, "finite-difference gradient (FD enabled)", f"{st}({exc})", "with the finite-difference option switched on the call still refuses")
                continue
            with quiet():
                f0 = f_logd(xa)
                fdm = [(f_logd(xa + eps * np.eye(2)[i]) - f0) / eps for i in range(2)]
            if not b.cmp_vec(fdm, val.tolist(), 1e-6 + 1e-14 * abs(f0) / eps):
                ctx.disagree(key, desc, fdm, val.tolist(), f"not the forward difference of the object's logd with spacing {eps}")
            b.oracle_value(ctx, key, desc, f_logd, val, xa, tol=max(2e-4, 400 * eps), in_support=True)
            with quiet():
                d.disable_FD()
            st2, _, val2 = b.classify(lambda: d.gradient(xa), 2)
            if st2 == "value":
                b.oracle_value(ctx, f"gallery:{name}:{mode}:closed-after-disable", desc, f_logd, val2, xa, tol=2e-6, in_support=True)


# ----------------------------------------------------------------------------------------------------------------
def _vec(rng, n, lo, hi, den=4):
    return np.array([_dy(rng, lo, hi, den) for _ in range(n)], dtype=float)


def _sqmat(rng, n):
    """n x n matrix with small dyadic entries and a dominant diagonal (invertible)"""
    A = np.array([[_dy(rng, -1, 1, 2) for _ in range(n)] for _ in range(n)], dtype=float)
    return A + 2.0 * np.eye(n)


def aliased_points(ctx, cuqi, reps):
    """The evaluation point is the very array OBJECT the density holds (observed data of a likelihood, a mean / scale /
    shape parameter, an array captured by a user callback), closed form and finite differences.  The gradient is a
    function of the point's VALUE: it must equal the gradient of an identical fresh object at a copy of the point
    (model: `fdGrad f x eps` / the closed forms are functions of (parameters, x); nothing in them depends on array
    identity), pass the oracle, and leave every stored array byte-identical."""
    b = _base()
    D = cuqi.distribution
    from cuqi.model import Model, LinearModel
    rng = random.Random(ctx.seed * 104729 + 911)
    cov = ctx.extra_cov.setdefault("aliased_points", {})

    def bump(k):
        cov[k] = cov.get(k, 0) + 1

    def specs(n):
        """(name, make_arrays, build(arrs) -> object, [(alias-name, getter of the same array from the object or None)])"""
        def lik_arrays():
            return {"A": _sqmat(rng, n), "d": _vec(rng, n, -2, 2), "m": _vec(rng, n, -1, 1)}
        def lik(a):
            return D.Gaussian(LinearModel(a["A"]), 0.5).to_likelihood(a["d"])
        def post(a):
            return D.Posterior(lik(a), D.Gaussian(a["m"], 1.0))
        def multi(a):
            xx = D.Gaussian(a["m"], 2.0, name="x")
            y1 = D.Gaussian(LinearModel(a["A"])(xx), 0.5, name="y1")
            y2 = D.Gaussian(LinearModel(a["A"].T.copy())(xx), 1.0, name="y2")
            return D.JointDistribution(xx, y1, y2)(y1=a["d"], y2=a["d"])
        def nl_arrays():
            return {"A": _sqmat(rng, n), "s": _vec(rng, n, 0.25, 1), "d": _vec(rng, n, -2, 2)}
        def nl(a):
            A, s = a["A"], a["s"]
            mod = Model(lambda z: A @ z + s * z * z, n, n, jacobian=lambda z: A + np.diag(2 * s * z))
            return D.Gaussian(mod, 0.5).to_likelihood(a["d"])
        def user_arrays():
            return {"c": _vec(rng, n, -1, 1), "w": _vec(rng, n, 0.5, 2)}
        def user(a):
            c, w = a["c"], a["w"]
            return D.UserDefinedDistribution(dim=n, logpdf_func=lambda x: -0.5 * float(np.sum(w * (x - c) ** 2)),
                                             gradient_func=lambda x: -(w * (x - c)))
        return [
            ("likelihood-square", lik_arrays, lik, [("d", lambda o: o.data)]),
            ("posterior-square", lik_arrays, post, [("d", lambda o: o.likelihood.data), ("m", lambda o: o.prior.mean)]),
            ("multi-posterior-square", lik_arrays, multi, [("d", None), ("m", None)]),
            ("likelihood-nonlinear", nl_arrays, nl, [("s", None), ("d", lambda o: o.data)]),
            ("gaussian-cov-vector", lambda: {"m": _vec(rng, n, -1, 1), "v": _vec(rng, n, 0.5, 2)},
             lambda a: D.Gaussian(a["m"], cov=a["v"]), [("v", lambda o: o.cov), ("m", lambda o: o.mean)]),
            ("gaussian-sqrtprec-vector", lambda: {"m": _vec(rng, n, -1, 1), "v": _vec(rng, n, 0.5, 2)},
             lambda a: D.Gaussian(a["m"], sqrtprec=a["v"]), [("v", None)]),
            ("lognormal", lambda: {"m": _vec(rng, n, 0.25, 2)}, lambda a: D.Lognormal(a["m"], 0.5), [("m", lambda o: o.mean)]),
            ("cauchy", lambda: {"l": _vec(rng, n, -1, 1), "s": _vec(rng, n, 0.5, 2)},
             lambda a: D.Cauchy(a["l"], a["s"]), [("s", lambda o: o.scale)]),
            ("beta", lambda: {"a": _vec(rng, n, 0.25, 0.75, 8), "b": _vec(rng, n, 0.5, 3)},
             lambda a: D.Beta(a["a"], a["b"]), [("a", lambda o: o.alpha)]),
            ("invgamma", lambda: {"sh": _vec(rng, n, 1, 3), "lo": _vec(rng, n, -2, -1), "sc": _vec(rng, n, 0.5, 2)},
             lambda a: D.InverseGamma(a["sh"], a["lo"], a["sc"]), [("sc", lambda o: o.scale), ("sh", lambda o: o.shape)]),
            ("gmrf", lambda: {"m": _vec(rng, max(n, 3), -1, 1)}, lambda a: D.GMRF(a["m"], 2.0), [("m", lambda o: o.mean)]),
            ("normal", lambda: {"m": _vec(rng, n, -1, 1), "s": _vec(rng, n, 0.5, 2)},
             lambda a: D.Normal(a["m"], a["s"]), [("s", lambda o: o.std)]),
            ("gamma", lambda: {"sh": _vec(rng, n, 1, 3), "r": _vec(rng, n, 0.5, 2)},
             lambda a: D.Gamma(a["sh"], a["r"]), [("r", lambda o: o.rate), ("sh", lambda o: o.shape)]),
            ("laplace", lambda: {"l": _vec(rng, n, -3, -2), "s": _vec(rng, n, 0.5, 2)},
             lambda a: D.Laplace(a["l"], a["s"]), [("s", lambda o: o.scale)]),
            ("userdefined", user_arrays, user, [("w", None), ("c", None)]),
        ]

    for rep in range(reps):
        n = rng.choice([2, 3])
        for name, mk_arrays, build, aliases in specs(n):
            for aname, getter in aliases:
                for mode in ("closed", "fd"):
                    eps = rng.choice([1e-5, 1e-6, 1e-7]) if mode == "fd" else None
                    for via in (("ctor", "attr") if getter is not None else ("ctor",)):
                        try:
                            with quiet():
                                arrs = mk_arrays()
                                ref_arrs = {k: v.copy() for k, v in arrs.items()}
                                obj = build(arrs); ref = build(ref_arrs)
                                if mode == "fd":
                                    for o in (obj, ref):
                                        if hasattr(o, "_densities"):
                                            for dens in o._densities:
                                                dens.enable_FD(eps)
                                        else:
                                            o.enable_FD(eps)
                                x = arrs[aname] if via == "ctor" else getter(obj)
                        except Exception as e:  # noqa
                            ctx.note(f"alias object refused {name}: {e!r}"[:160]); continue
                        if not isinstance(x, np.ndarray) or x.ndim != 1:
                            continue
                        dim = len(x)
                        shares = bool(np.shares_memory(x, arrs[aname]))
                        xc = np.array(ref_arrs[aname], dtype=float).copy()
                        desc = {"alias": name, "array": aname, "via": via, "mode": mode, "eps": eps, "x": xc.tolist(),
                                "arrays": {k: v.tolist() for k, v in ref_arrs.items()}}
                        ctx.case("aliased-point", desc)
                        key = f"alias:{name}:{aname}:{mode}"
                        snaps = {k: v.tobytes() for k, v in arrs.items()}
                        st, exc, val = b.classify(lambda: obj.gradient(x), dim)
                        st_r, exc_r, val_r = b.classify(lambda: ref.gradient(xc.copy()), dim)
                        bump(f"{name}:{aname}:{mode}:{via}:{st}{':shared' if shares else ''}")
                        for k, v in arrs.items():
                            if v.tobytes() != snaps[k]:
                                ctx.fail(key + ":stored-array-modified", desc, "stored arrays unchanged", k,
                                         "a gradient call modified an array the caller handed to the density")
                        if st_r != "value":
                            if st == "value":
                                # the reference refuses (no closed form / known not-a-vector rows) but the aliased call answers
                                f_logd = lambda z: float(np.asarray(ref.logd(np.asarray(z, dtype=float))).ravel()[0])
                                b.oracle_value(ctx, key, desc, f_logd, val, xc, tol=(2e-6 if mode == "closed" else max(2e-4, 400 * eps)), in_support=True)
                            continue
                        f_logd = lambda z: float(np.asarray(ref.logd(np.asarray(z, dtype=float))).ravel()[0])
                        tol = 2e-6 if mode == "closed" else max(2e-4, 400 * eps)
                        if not b.oracle_value(ctx, key + ":reference", desc, f_logd, val_r, xc, tol=tol, in_support=True):
                            continue
                        with quiet():
                            f0 = f_logd(xc)
                        ctol = 1e-10 if mode == "closed" else 1e-6 + 1e-13 * abs(f0) / eps
                        if st != "value" or not b.cmp_vec(val_r.tolist(), val.tolist(), ctol):
                            got = f"{st}({exc})" if st != "value" else val.tolist()
                            ctx.disagree(key, desc, val_r.tolist(), got, "gradient at an array the density holds differs from the gradient at an equal copy")
                            ctx.fail(key, desc, val_r.tolist(), got,
                                     "the gradient depends on the identity of the evaluation-point array (it aliases an array stored in the density), not only on its value")


# ----------------------------------------------------------------------------------------------------------------
def observer_histories(ctx, cuqi, reps):
    """Histories on ONE object in which, between two gradient evaluations at the same point, *observers* are called —
    public methods/properties that do not assign any parameter (model.get_matrix / adjoint / forward / T, logd, pdf,
    compute_cov, logdet, sqrtprecTimesMean, sample, repr, dim, …).  The gradient is a function of (parameters, point):
    every later gradient must equal the first (which is validated by the oracle and, for the linear chain, by the Lean
    op `lik` with the geometry Jacobian G).  Linear models are given by matrix and by function+adjoint, with domain
    geometries identity / scaled (par2fun = c p, own `gradient`) / linear (par2fun = E p, own `gradient`)."""
    b = _base()
    D = cuqi.distribution
    G = cuqi.geometry
    from cuqi.model import Model, LinearModel
    rng = random.Random(ctx.seed * 15485863 + 77)
    cov = ctx.extra_cov.setdefault("observer_histories", {})

    def bump(k):
        cov[k] = cov.get(k, 0) + 1

    class LinearDomain(G.Geometry):
        """user geometry with par2fun = E p (E square, invertible) and its own derivative"""
        def __init__(self, E):
            self._E = E
        @property
        def par_shape(self):
            return (self._E.shape[1],)
        @property
        def fun_shape(self):
            return (self._E.shape[0],)
        def par2fun(self, p):
            return self._E @ p
        def fun2par(self, f):
            return np.linalg.solve(self._E, f)
        def gradient(self, direction, wrt):
            return self._E.T @ direction
        def _plot(self):
            pass
        def __eq__(self, other):
            return self is other or (isinstance(other, LinearDomain) and np.array_equal(self._E, other._E))

    def domain(kind, n):
        """(geometry, Jacobian of par2fun as matrix or None for identity)"""
        if kind == "identity":
            return G.Continuous1D(n), None
        if kind == "scaled+grad":
            c = rng.choice([2.0, 3.0, 0.5, -2.0])
            g = G.MappedGeometry(G.Continuous1D(n), map=lambda p, c=c: c * p, imap=lambda f, c=c: f / c)
            g.gradient = lambda direction, wrt, c=c: c * direction
            return g, c * np.eye(n)
        E = _sqmat(rng, n)
        return LinearDomain(E), E

    def model_observers(mod):
        obs = [("model.forward", lambda: mod.forward(np.ones(mod.domain_dim))),
               ("model.repr", lambda: repr(mod)), ("model.range_dim", lambda: mod.range_dim)]
        if isinstance(mod, LinearModel):
            obs += [("model.get_matrix", lambda: mod.get_matrix()),
                    ("model.adjoint", lambda: mod.adjoint(np.ones(mod.range_dim))),
                    ("model.T", lambda: mod.T), ("model.get_matrix", lambda: mod.get_matrix())]
        return obs

    def dist_observers(d, x):
        obs = [("logd", lambda: d.logd(x)), ("repr", lambda: repr(d)), ("dim", lambda: d.dim),
               ("sample", lambda: d.sample(2)), ("pdf", lambda: d.pdf(x)),
               ("get_parameter_names", lambda: d.get_parameter_names())]
        for a in ("compute_cov",):
            if hasattr(d, a):
                obs.append((a, getattr(d, a)))
        for a in ("logdet", "sqrtprecTimesMean", "sqrtprec", "prec", "cov", "sqrtcov", "rank", "scale", "location", "mean"):
            obs.append((a, lambda a=a: getattr(d, a)))
        return obs

    cases = []
    for rep in range(reps):
        for mk in ("fun+adjoint", "matrix"):
            for dk in ("scaled+grad", "linear+grad", "identity"):
                for target in ("likelihood", "posterior"):
                    cases.append(("linear", mk, dk, target))
        for form in ("cov", "prec", "sqrtcov", "sqrtprec-fd"):
            cases.append(("gaussian", form, None, None))
        cases += [("gmrf", None, None, None), ("lognormal", None, None, None), ("nonlinear", "jacobian", "scaled+grad", "posterior")]

    lines = []; jobs = []
    for kind, a1, a2, a3 in cases:
        n = rng.choice([2, 3]); m = rng.choice([2, 3, 4])
        try:
            with quiet():
                if kind in ("linear", "nonlinear"):
                    dom, Gm = domain(a2, n)
                    A = np.array([[rng.randint(-2, 2) for _ in range(n)] for _ in range(m)], dtype=float)
                    if kind == "linear":
                        mod = (LinearModel(A, range_geometry=G.Continuous1D(m), domain_geometry=dom) if a1 == "matrix" else
                               LinearModel(lambda f, A=A: A @ f, adjoint=lambda r, A=A: A.T @ r, range_geometry=G.Continuous1D(m), domain_geometry=dom))
                        Jx = lambda f, A=A: A
                    else:
                        Bq = np.array([[rng.choice([0, 1, -1, 0.5]) for _ in range(n)] for _ in range(m)], dtype=float)
                        mod = Model(lambda f, A=A, Bq=Bq: A @ f + Bq @ (f * f), G.Continuous1D(m), dom, jacobian=lambda f, A=A, Bq=Bq: A + 2 * Bq * f[None, :])
                        Jx = lambda f, A=A, Bq=Bq: A + 2 * Bq * f[None, :]
                    s2 = rng.choice([0.5, 1.0, 2.0, 0.25])
                    data = _vec(rng, m, -3, 3)
                    lik = D.Gaussian(mod, s2).to_likelihood(data)
                    x = _vec(rng, n, -2, 2)
                    if a3 == "posterior":
                        pm = _vec(rng, n, -1, 1)
                        obj = D.Posterior(lik, D.Gaussian(pm, 1.0, geometry=dom))
                    else:
                        pm = None; obj = lik
                    obs = model_observers(mod) + [("logd", lambda obj=obj, x=x: obj.logd(x)), ("likelihood.logd", lambda lik=lik, x=x: lik.logd(x)),
                                                 ("likelihood.model", lambda lik=lik: lik.model), ("geometry", lambda obj=obj: obj.geometry)]
                    # Lean: Gᵀ Jᵀ P (d - F(par2fun x)) (+ prior part, added here in exact dyadic arithmetic by the `sum` op)
                    fx = x if Gm is None else Gm @ x
                    Fv = A @ fx if kind == "linear" else A @ fx + Bq @ (fx * fx)
                    ln = f"lik {qv(data - Fv)} {qm(Jx(fx))} {qm(np.eye(m) / s2)} {'_' if Gm is None else qm(Gm)}"
                    name = f"{kind}:{a1}:{a2}:{a3}"
                elif kind == "gaussian":
                    form = a1.split("-")[0]
                    M = b_rand_spd(rng, n) if form in ("cov", "prec") else np.tril(_sqmat(rng, n))
                    mu = _vec(rng, n, -1, 1)
                    obj = D.Gaussian(mu, **{form: M})
                    if a1.endswith("fd"):
                        obj.enable_FD(1e-6)
                    x = _vec(rng, n, -2, 2); ln = None; pm = None
                    obs = dist_observers(obj, x)
                    name = f"gaussian:{a1}"
                elif kind == "gmrf":
                    nn = rng.choice([4, 5])
                    obj = D.GMRF(_vec(rng, nn, -1, 1), 2.0, bc_type=rng.choice(["zero", "periodic", "neumann"]), order=rng.choice([1, 2]))
                    x = _vec(rng, nn, -2, 2); ln = None; pm = None
                    obs = dist_observers(obj, x)
                    name = "gmrf"
                else:
                    obj = D.Lognormal(_vec(rng, n, -1, 1), b_rand_spd(rng, n))
                    x = _vec(rng, n, 0.5, 2.5); ln = None; pm = None
                    obs = dist_observers(obj, x)
                    name = "lognormal"
        except Exception as e:  # noqa
            ctx.note(f"observer object refused {kind}: {e!r}"[:160]); continue
        rng.shuffle(obs)
        jobs.append((name, obj, x, obs, ln, pm))
        if ln is not None:
            lines.append(ln)
    outs = iter((yield lines))

    for name, obj, x, obs, ln, pm in jobs:
        dim = len(x)
        desc = {"observer-history": name, "x": x.tolist(), "observers": [o[0] for o in obs], "line": ln}
        ctx.case("observer-history", desc)
        key0 = f"observer:{name}"
        f_logd = lambda z, obj=obj: float(np.asarray(obj.logd(np.asarray(z, dtype=float))).ravel()[0])
        fd = bool(getattr(obj, "FD_enabled", False))
        st0, exc0, g0 = b.classify(lambda: obj.gradient(x.copy()), dim)
        bump(f"{name}:{st0}")
        mo = next(outs).split() if ln is not None else None
        if st0 != "value":
            ctx.note(f"observer history {name}: first gradient is {st0}({exc0}); skipped"); continue
        if mo is not None and mo[0] == "value":
            mg = np.array(b.decv(mo[1]))
            if pm is not None:
                mg = mg - (x - pm)            # Gaussian(pm, 1.0) prior: -(x - pm), exact on dyadic data
            if not b.cmp_vec(mg.tolist(), g0.tolist()):
                ctx.disagree(key0 + ":first", desc, mg.tolist(), g0.tolist(), "gradient differs from the model (likGrad with the geometry Jacobian)")
        if not b.oracle_value(ctx, key0 + ":first", desc, f_logd, g0, x, tol=(2e-4 if fd else b.ORTOL), in_support=True):
            continue
        done = []
        for oname, call in obs:
            _rs = np.random.get_state()
            try:
                with quiet():
                    call()
                done.append(oname)
            except Exception:  # noqa
                done.append(oname + "(raised)")
            finally:
                np.random.set_state(_rs)
            st, exc, g = b.classify(lambda: obj.gradient(x.copy()), dim)
            if st != "value" or not b.cmp_vec(g0.tolist(), g.tolist(), 1e-10):
                key = f"{key0}:after:{oname}"
                d2 = {**desc, "called": list(done)}
                got = f"{st}({exc})" if st != "value" else g.tolist()
                ctx.disagree(key, d2, g0.tolist(), got, "gradient changed after calling an observer (no parameter was assigned)")
                ok = st == "value" and b.oracle_value(ctx, key, d2, f_logd, g, x, tol=(2e-4 if fd else b.ORTOL), in_support=True)
                if st != "value":
                    ctx.fail(key, d2, g0.tolist(), got, "after an observer call the gradient is refused / not a vector although nothing was re-assigned")
                elif ok:
                    # both vectors pass the oracle at its tolerance yet differ beyond 1e-10: report the drift
                    ctx.fail(key, d2, g0.tolist(), got, "gradient at the same point changed after an observer call")
                break


def b_rand_spd(rng, n):
    L = np.tril(np.array([[_dy(rng, -1, 1, 2) for _ in range(n)] for _ in range(n)], dtype=float), -1) + np.diag([_dy(rng, 1, 2, 2) for _ in range(n)])
    return L @ L.T


# ----------------------------------------------------------------------------------------------------------------
def run_all(ctx, cuqi, thorough):
    """all session-3 streams; the model lines of the streams are sent to the Lean driver in ONE batch"""
    gens = [gallery(ctx, cuqi, 40 if thorough else 6), observer_histories(ctx, cuqi, 8 if thorough else 1),
            point_representations(ctx, cuqi, 8 if thorough else 2), glue_geometries(ctx, cuqi, 6 if thorough else 1),
            noninjective_geometries(ctx, cuqi, 4 if thorough else 1)]
    reqs = []
    for g in gens:
        try:
            reqs.append(next(g))
        except StopIteration:
            reqs.append(None)
    flat = [ln for r in reqs if r for ln in r]
    outs = ctx.lean.drive(flat) if flat else []
    pos = 0
    for g, r in zip(gens, reqs):
        if r is None:
            continue
        part = outs[pos:pos + len(r)]; pos += len(r)
        try:
            g.send(part)
        except StopIteration:
            pass
    aliased_points(ctx, cuqi, 8 if thorough else 1)
    inplace_mutations(ctx, cuqi, 8 if thorough else 1)


# ----------------------------------------------------------------------------------------------------------------
def point_representations(ctx, cuqi, reps):
    """(i) `Model.gradient(direction, wrt, is_wrt_par)` with the point as plain array / CUQIarray of parameters /
    CUQIarray of function values / CUQIarray with another geometry / function values with is_wrt_par=False: the arrays
    the code hands to `_gradient_func` (wrt) and to `geometry.gradient` (wrt_par) are recorded and compared with
    `wrtFun` / `wrtPar` of Model/C03_glue.lean (driver op `glue`); the returned vector must be the derivative of
    p -> direction . forward(p) at the parameter point (oracle) — the same for every representation.
    (ii) Distribution / Likelihood / Posterior gradients at CUQIarray parameter points (closed form and FD): the same
    vector as for the plain array.  (iii) dim-1 objects at scalar points (Python float, np.float64, 0-d array): the
    scalar `Number` branch of approx_gradient; the one component must equal that of the (1,) array, or the call refuses.
    Generator protocol: yields the driver lines, receives the outputs."""
    b = _base()
    D = cuqi.distribution
    G = cuqi.geometry
    from cuqi.array import CUQIarray
    from cuqi.model import Model, LinearModel
    rng = random.Random(ctx.seed * 32452843 + 5)
    cov = ctx.extra_cov.setdefault("point_representations", {})

    def bump(k):
        cov[k] = cov.get(k, 0) + 1

    jobs = []; lines = []
    for rep_i in range(reps):
        for gk in ("identity", "scaled", "scaled+grad", "square+grad"):
            n = rng.choice([2, 3]); m = rng.choice([2, 3])
            c = 1.0 if gk in ("identity", "square+grad") else rng.choice([2.0, 3.0, 0.5, -2.0])
            rec = {}
            if gk == "identity":
                dom = G.Continuous1D(n)
            elif gk == "square+grad":
                # a geometry whose own derivative DEPENDS on wrt_par (par2fun = p**2): a wrong wrt_par changes the value
                dom = G.MappedGeometry(G.Continuous1D(n), map=lambda p: p ** 2, imap=lambda f: np.sqrt(f))
                def sgrad(direction, wrt, rec=rec):
                    rec["wrt_par_sq"] = np.array(wrt, dtype=float); return 2 * np.asarray(wrt) * np.asarray(direction)
                dom.gradient = sgrad
            else:
                dom = G.MappedGeometry(G.Continuous1D(n), map=lambda p, c=c: c * p, imap=lambda f, c=c: f / c)
                if gk == "scaled+grad":
                    def ggrad(direction, wrt, c=c, rec=rec):
                        rec["wrt_par"] = np.array(wrt, dtype=float); return c * np.asarray(direction)
                    dom.gradient = ggrad
            A = np.array([[rng.randint(-2, 2) for _ in range(n)] for _ in range(m)], dtype=float)
            Bq = np.array([[rng.choice([0, 1, -1, 0.5]) for _ in range(n)] for _ in range(m)], dtype=float)
            def gradf(direction, wrt, A=A, Bq=Bq, rec=rec):
                w = np.asarray(wrt, dtype=float)
                rec["wrt"] = w.copy(); return np.asarray(direction) @ (A + 2 * Bq * w[None, :])
            with quiet():
                mod = Model(lambda f, A=A, Bq=Bq: A @ f + Bq @ (f * f), G.Continuous1D(m), dom, gradient=gradf)
            p = _vec(rng, n, -2, 2); f = c * p; direction = _vec(rng, m, -2, 2)
            if gk == "square+grad":
                p = _vec(rng, n, 0.5, 2.5); f = p ** 2
            variants = [("ndarray", p.copy(), True, p), ("cuqi-par", CUQIarray(p.copy(), is_par=True, geometry=dom), True, p),
                        ("cuqi-fun", CUQIarray(f.copy(), is_par=False, geometry=dom), True, f),
                        ("cuqi-other", CUQIarray(p.copy(), is_par=True, geometry=G.Discrete(n)), True, p),
                        ("funvals", f.copy(), False, f)]
            for rname, wrt, flag, content in variants:
                ln = f"glue {rname} {q(c)} {qv(content)}"
                lines.append(ln)
                jobs.append((gk, c, mod, rec, rname, wrt, flag, p, direction, ln))
    outs = iter((yield lines))

    for gk, c, mod, rec, rname, wrt, flag, p, direction, ln in jobs:
        mo = next(outs).split()
        n = len(p)
        desc = {"model.gradient": gk, "c": c, "rep": rname, "p": p.tolist(), "direction": direction.tolist(), "line": ln}
        ctx.case("point-representation", desc)
        key = f"point-rep:model:{gk}:{rname}"
        rec.clear()
        st, exc, val = b.classify(lambda: mod.gradient(direction, wrt, is_wrt_par=flag), n)
        bump(f"model:{gk}:{rname}:{st}")
        expect_refusal = (gk == "scaled")         # non-identity domain without `gradient`: _check_gradient_can_be_computed refuses
        if expect_refusal:
            if st != "raise":
                ctx.disagree(key, desc, "raise", st, "non-identity domain geometry without `gradient` is not refused")
                if st == "value":
                    f_dir = lambda z: float(direction @ np.asarray(mod.forward(np.asarray(z, dtype=float))))
                    b.oracle_value(ctx, key, desc, f_dir, val, p, in_support=True)
            continue
        if st != "value":
            if rname in ("ndarray",):
                ctx.disagree(key, desc, "value", f"{st}({exc})", "Model.gradient refuses a plain parameter array")
                ctx.fail(key, desc, "the direction-Jacobian product", f"{st}({exc})", "Model.gradient refuses / returns no vector for a plain parameter array")
            continue              # refusing an unusual container is allowed
        m_wp, m_wf = b.decv(mo[0]), b.decv(mo[1])
        if gk == "square+grad":
            # not an affine geometry: no `glue` comparison; the oracle decides (the geometry derivative uses wrt_par)
            f_dir = lambda z: float(direction @ np.asarray(mod.forward(np.asarray(z, dtype=float))))
            b.oracle_value(ctx, key, desc, f_dir, val, p, in_support=True)
            continue
        if "wrt" in rec and not b.cmp_vec(m_wf, rec["wrt"].tolist(), 1e-12):
            ctx.disagree(key, desc, m_wf, rec["wrt"].tolist(), "array handed to _gradient_func differs from wrtFun")
        if "wrt_par" in rec and not b.cmp_vec(m_wp, rec["wrt_par"].tolist(), 1e-12):
            ctx.disagree(key, desc, m_wp, rec["wrt_par"].tolist(), "array handed to geometry.gradient differs from wrtPar")
        f_dir = lambda z: float(direction @ np.asarray(mod.forward(np.asarray(z, dtype=float))))
        b.oracle_value(ctx, key, desc, f_dir, val, p, in_support=True)

    # ---- (ii) densities at CUQIarray parameter points
    def dens_objects(n):
        A = np.array([[rng.randint(-2, 2) for _ in range(n)] for _ in range(2)], dtype=float)
        c = rng.choice([2.0, 3.0, 0.5])
        sg = G.MappedGeometry(G.Continuous1D(n), map=lambda p, c=c: c * p, imap=lambda f, c=c: f / c)
        sg.gradient = lambda direction, wrt, c=c: c * direction
        idg = G.Continuous1D(n)
        def lik(dom):
            return D.Gaussian(LinearModel(A, range_geometry=G.Continuous1D(2), domain_geometry=dom), 0.5).to_likelihood(_vec(rng, 2, -2, 2))
        return [("gaussian", D.Gaussian(_vec(rng, n, -1, 1), 2.0, geometry=idg), idg, (-2, 2)),
                ("cauchy", D.Cauchy(_vec(rng, n, -1, 1), 2.0, geometry=idg), idg, (-2, 2)),
                ("beta", D.Beta(2.0, 3.0, geometry=idg), idg, (0.25, 0.75)),
                ("gmrf", D.GMRF(np.zeros(n), 2.0, geometry=idg), idg, (-2, 2)),
                ("likelihood-identity", lik(idg), idg, (-2, 2)),
                ("likelihood-scaled", lik(sg), sg, (-2, 2)),
                ("posterior-identity", D.Posterior(lik(idg), D.Gaussian(np.zeros(n), 1.0, geometry=idg)), idg, (-2, 2)),
                ("posterior-scaled", D.Posterior(lik(sg), D.Gaussian(np.zeros(n), 1.0, geometry=sg)), sg, (-2, 2))]

    for rep_i in range(reps):
        n = rng.choice([2, 3])
        with quiet():
            objs = dens_objects(n)
        for name, obj, dom, (lo, hi) in objs:
            for mode in ("closed", "fd"):
                if mode == "fd" and name in ("cauchy",):
                    continue
                x = _vec(rng, n, lo, hi, 8)
                with quiet():
                    (obj.enable_FD(1e-6) if mode == "fd" else obj.disable_FD())
                desc = {"cuqiarray-point": name, "mode": mode, "x": x.tolist()}
                ctx.case("point-representation", desc)
                key = f"point-rep:{name}:{mode}"
                f_logd = lambda z, obj=obj: float(np.asarray(obj.logd(np.asarray(z, dtype=float))).ravel()[0])
                st0, exc0, g0 = b.classify(lambda: obj.gradient(x.copy()), n)
                bump(f"{name}:{mode}:ndarray:{st0}")
                if st0 != "value" or not b.oracle_value(ctx, key + ":ndarray", desc, f_logd, g0, x, tol=(2e-4 if mode == "fd" else b.ORTOL), in_support=True):
                    continue
                for rname, xv in (("cuqi-par", CUQIarray(x.copy(), is_par=True, geometry=dom)),
                                  ("cuqi-other", CUQIarray(x.copy(), is_par=True, geometry=G.Discrete(n))),
                                  ("cuqi-nogeom", CUQIarray(x.copy(), is_par=True))):
                    snap = np.asarray(xv).tobytes()
                    st, exc, g = b.classify(lambda: obj.gradient(xv), n)
                    bump(f"{name}:{mode}:{rname}:{st}")
                    d2 = {**desc, "rep": rname}
                    if np.asarray(xv).tobytes() != snap:
                        ctx.fail(key + f":{rname}:mutated", d2, "caller's point unchanged", "modified", "gradient modified the caller's evaluation point")
                    if st == "raise":
                        continue
                    if st != "value" or not b.cmp_vec(g0.tolist(), g.tolist(), 1e-12 if mode == "closed" else 1e-7):
                        got = f"{st}" if st != "value" else g.tolist()
                        ctx.disagree(key + f":{rname}", d2, g0.tolist(), got, "CUQIarray parameter point gives another gradient than the plain array")
                        ctx.fail(key + f":{rname}", d2, g0.tolist(), got, "gradient depends on the container of the evaluation point (CUQIarray of parameters vs ndarray)")
            with quiet():
                obj.disable_FD()

    # ---- (iii) dim-1 objects at scalar points
    def scalar_objects():
        return [("gaussian", D.Gaussian(0.5, 2.0), (-2, 2)), ("cauchy", D.Cauchy(0.5, 2.0), (-2, 2)), ("beta", D.Beta(2.0, 3.0), (0.25, 0.75)),
                ("invgamma", D.InverseGamma(2.0, 0.0, 1.0), (0.5, 3)), ("lognormal", D.Lognormal(0.5, 2.0), (0.5, 3)),
                ("smoothedlaplace", D.SmoothedLaplace(0.5, 2.0, 1e-3), (-2, 2)), ("mhn", D.ModifiedHalfNormal(2.0, 1.0, 0.5), (0.5, 3)),
                ("uniform", D.Uniform(0.0, 1.0), (0.25, 0.75)), ("gamma", D.Gamma(2.0, 1.0), (0.5, 3)), ("normal", D.Normal(0.5, 2.0), (-2, 2)),
                ("gallery-none", None, None)]
    for rep_i in range(reps):
        with quiet():
            sobjs = scalar_objects()
        for name, obj, rg in sobjs:
            if obj is None:
                continue
            for mode in ("closed", "fd"):
                xs = _dy(rng, rg[0], rg[1], 8)
                eps = 1e-6
                with quiet():
                    (obj.enable_FD(eps) if mode == "fd" else obj.disable_FD())
                desc = {"scalar-point": name, "mode": mode, "x": xs}
                ctx.case("point-representation", desc)
                key = f"point-rep:scalar:{name}:{mode}"
                f_logd = lambda z, obj=obj: float(np.asarray(obj.logd(np.asarray(z, dtype=float))).ravel()[0])
                st0, exc0, g0 = b.classify(lambda: obj.gradient(np.array([xs])), 1)
                bump(f"scalar:{name}:{mode}:array1:{st0}")
                if st0 == "value":
                    if not b.oracle_value(ctx, key + ":array1", desc, f_logd, g0, np.array([xs]), tol=(2e-4 if mode == "fd" else b.ORTOL), in_support=True):
                        continue
                for rname, xv in (("pyfloat", float(xs)), ("np.float64", np.float64(xs)), ("array0d", np.array(xs))):
                    try:
                        with quiet():
                            r = obj.gradient(xv)
                    except Exception:  # noqa
                        bump(f"scalar:{name}:{mode}:{rname}:raise"); continue
                    d2 = {**desc, "rep": rname}
                    if r is None:
                        bump(f"scalar:{name}:{mode}:{rname}:none")
                        ctx.fail(key + f":{rname}", d2, "number/vector or raise", "None", "neither a gradient nor a refusal"); continue
                    a = np.asarray(r, dtype=float).ravel()
                    bump(f"scalar:{name}:{mode}:{rname}:value")
                    if a.size != 1:
                        if name == "mhn":
                            continue
                        ctx.fail(key + f":{rname}", d2, "one number", a.tolist(), "gradient of a scalar variable at a scalar point has several entries"); continue
                    if st0 == "value":
                        ref = float(g0[0])
                    else:
                        # the (1,) array is refused (no closed form): validate the scalar result by the oracle alone
                        b.oracle_value(ctx, key + f":{rname}", d2, f_logd, a, np.array([xs]), tol=(2e-4 if mode == "fd" else b.ORTOL), in_support=True)
                        continue
                    if not b.close(ref, float(a[0]), 1e-9 if mode == "closed" else 1e-6):
                        ctx.disagree(key + f":{rname}", d2, ref, float(a[0]), "scalar point gives another derivative than the (1,) array")
                        ctx.fail(key + f":{rname}", d2, ref, float(a[0]), "gradient at a scalar point is not the derivative of the log-density")
            with quiet():
                obj.disable_FD()


# ----------------------------------------------------------------------------------------------------------------
def _finv(E):
    """exact inverse of a small square float matrix with rational entries, as Fractions"""
    n = len(E)
    A = [[Fraction(float(E[i][j])) for j in range(n)] + [Fraction(int(i == j)) for j in range(n)] for i in range(n)]
    for c in range(n):
        piv = next(r for r in range(c, n) if A[r][c] != 0)
        A[c], A[piv] = A[piv], A[c]
        A[c] = [v / A[c][c] for v in A[c]]
        for r in range(n):
            if r != c and A[r][c] != 0:
                A[r] = [a - A[r][c] * b_ for a, b_ in zip(A[r], A[c])]
    return [row[n:] for row in A]


def _fm(M):
    return ";".join(",".join(str(Fraction(v)) if not isinstance(v, Fraction) else str(v) for v in row) for row in M)


def glue_geometries(ctx, cuqi, reps):
    """`Model.gradient` on affine / permutation / expansion domain geometries and its refusals.  For each geometry the
    matrices of par2fun (`E`, offset `d`) and fun2par (`Fm`) are read from the geometry itself (unit vectors); the arrays
    the code hands to `_gradient_func` / `geometry.gradient` are recorded and compared with `wrtFun` / `wrtPar` on
    `linGeo E d Fm` (driver op `glue2`); the outcome class (vector as ndarray / as CUQIarray, ValueError,
    NotImplementedError) with `gradientOutcome` (op `gradout`; a differing exception *class* is only noted); the vector with
    the numerical derivative of p -> direction . forward(p)."""
    b = _base()
    G = cuqi.geometry
    from cuqi.array import CUQIarray
    from cuqi.samples import Samples
    from cuqi.model import Model
    rng = random.Random(ctx.seed * 49979687 + 13)
    cov = ctx.extra_cov.setdefault("glue_geometries", {})
    ID = [c.__name__ for c in G._get_identity_geometries()]

    def bump(k):
        cov[k] = cov.get(k, 0) + 1

    class AffineDomain(G.Geometry):
        def __init__(self, E, d, with_f2p=True):
            self._E, self._d, self._with = E, d, with_f2p
        @property
        def par_shape(self):
            return (self._E.shape[1],)
        @property
        def fun_shape(self):
            return (self._E.shape[0],)
        def par2fun(self, p):
            return self._E @ p + self._d
        def fun2par(self, f):
            if not self._with:
                raise NotImplementedError("fun2par not implemented")
            return np.linalg.solve(self._E, f - self._d)
        def gradient(self, direction, wrt):
            return self._E.T @ direction
        def _plot(self):
            pass
        def __eq__(self, other):
            return self is other

    def make(kind):
        """(geometry, E (N x n), d, Fm (n x N) or None)"""
        n = rng.choice([2, 3])
        if kind in ("affine", "affine-nofun2par"):
            E = np.eye(n) + np.tril(np.array([[_dy(rng, -1, 1, 2) for _ in range(n)] for _ in range(n)]), -1)
            E = E * rng.choice([1.0, 2.0, -0.5])
            d = _vec(rng, n, -1, 1)
            return AffineDomain(E, d, kind == "affine"), E, d, _finv(E)
        if kind.startswith("image2d"):
            h, w = rng.choice([(2, 3), (3, 2), (2, 2)])
            g = G.Image2D((h, w), order=kind[-1])
        elif kind == "step":
            g = G.StepExpansion(np.linspace(0, 1, 2 * n), n_steps=n)
        elif kind == "kl":
            g = G.KLExpansion(np.linspace(0, 1, n + 2), num_modes=n)
        elif kind == "mapped-noimap":
            g = G.MappedGeometry(G.Continuous1D(n), map=lambda p: 2 * p)
            g.gradient = lambda direction, wrt: 2 * np.asarray(direction)
            return g, 2 * np.eye(n), np.zeros(n), [[Fraction(int(i == j), 2) for j in range(n)] for i in range(n)]
        npar = g.par_dim
        E = np.array([np.asarray(g.par2fun(np.eye(npar)[i]), dtype=float).ravel() for i in range(npar)]).T
        N = E.shape[0]
        try:
            Fm = np.array([np.asarray(g.fun2par(np.eye(N)[l].reshape(g.fun_shape)), dtype=float).ravel() for l in range(N)]).T
            Fm = [[Fraction(float(v)) for v in row] for row in Fm]
        except Exception:  # noqa
            Fm = [[Fraction(0)] * N for _ in range(npar)]
        if kind in ("step", "kl"):
            g.gradient = lambda direction, wrt, E=E: E.T @ np.asarray(direction).ravel()
        return g, E, np.zeros(N), Fm

    KINDS = ["affine", "image2d-C", "image2d-F", "step", "kl", "mapped-noimap", "affine-nofun2par"]
    jobs = []; lines = []
    for rep_i in range(reps):
        for kind in KINDS:
            try:
                with quiet():
                    dom, E, d, Fm = make(kind)
            except Exception as e:  # noqa
                ctx.note(f"glue geometry refused {kind}: {e!r}"[:160]); continue
            N, n = E.shape
            m = rng.choice([2, 3])
            A = np.array([[rng.randint(-2, 2) for _ in range(N)] for _ in range(m)], dtype=float)
            Bq = np.array([[rng.choice([0, 1, -1, 0.5]) for _ in range(N)] for _ in range(m)], dtype=float)
            rec = {}
            fshape = tuple(dom.fun_shape)
            def gradf(direction, wrt, A=A, Bq=Bq, rec=rec, fshape=fshape):
                w = np.asarray(wrt, dtype=float).ravel()
                rec["wrt"] = w.copy(); return (np.asarray(direction).ravel() @ (A + 2 * Bq * w[None, :])).reshape(fshape)
            if hasattr(dom, "gradient") and kind in ("affine", "step", "kl", "affine-nofun2par", "mapped-noimap"):
                og = dom.gradient
                def ggrad(direction, wrt, og=og, rec=rec):
                    rec["wrt_par"] = np.array(wrt, dtype=float).ravel(); return og(direction, wrt)
                try:
                    dom.gradient = ggrad
                except Exception:  # noqa
                    pass
            p = _vec(rng, n, -2, 2)
            f = (E @ p + d)
            fimg = f.reshape(fshape)
            for variant in ("ndarray", "cuqi-par", "cuqi-fun", "cuqi-other", "funvals", "ndarray+cuqi-direction", "no-gradient-func",
                            "samples-direction", "step-range"):
                rname = variant if variant in ("ndarray", "cuqi-par", "cuqi-fun", "cuqi-other", "funvals") else "ndarray"
                with quiet():
                    try:
                        rgeo = G.StepExpansion(np.linspace(0, 1, 2 * m), n_steps=m) if variant == "step-range" else G.Continuous1D(m)
                        mod = Model(lambda ff, A=A, Bq=Bq: A @ np.asarray(ff).ravel() + Bq @ (np.asarray(ff).ravel() ** 2), rgeo, dom,
                                    gradient=(None if variant == "no-gradient-func" else gradf))
                        wrt = {"ndarray": p.copy(), "cuqi-par": CUQIarray(p.copy(), is_par=True, geometry=dom),
                               "cuqi-fun": CUQIarray(fimg.copy(), is_par=False, geometry=dom),
                               "cuqi-other": CUQIarray(p.copy(), is_par=True, geometry=G.Discrete(n)), "funvals": fimg.copy()}[rname]
                    except Exception as e:  # noqa
                        ctx.note(f"glue representation refused {kind}/{variant}: {e!r}"[:160]); continue
                direction = _vec(rng, m, -2, 2)
                dirobj = direction
                if variant == "ndarray+cuqi-direction":
                    dirobj = CUQIarray(direction.copy(), is_par=True, geometry=rgeo)
                elif variant == "samples-direction":
                    dirobj = Samples(direction.reshape(-1, 1).copy())
                needs = rname in ("cuqi-fun", "funvals")
                f2p = "ok"
                if needs:
                    try:
                        with quiet():
                            dom.fun2par(fimg.copy())
                    except NotImplementedError:
                        f2p = "ni"
                    except ValueError:
                        f2p = "ve"
                    except Exception:  # noqa
                        f2p = "ok"
                content = f if needs else p
                l1 = f"glue2 {rname} {qm(E)} {qv(d)} {_fm(Fm)} {qv(content)}"
                l2 = (f"gradout {int(needs)} {f2p} {int(variant != 'no-gradient-func')} {int(variant == 'samples-direction')} "
                      f"{int(variant != 'step-range')} {int(hasattr(dom, 'gradient'))} {int(type(dom).__name__ in ID)} {int(variant == 'ndarray+cuqi-direction')}")
                lines += [l1, l2]
                jobs.append((kind, variant, rname, mod, rec, wrt, rname != "funvals", dirobj, direction, E, d, n, l1, l2))
    outs = iter((yield lines))

    for kind, variant, rname, mod, rec, wrt, flag, dirobj, direction, E, d, n, l1, l2 in jobs:
        mo = next(outs).split(); mout = next(outs).strip()
        desc = {"glue-geometry": kind, "variant": variant, "lines": [l1, l2]}
        ctx.case("glue-geometry", desc)
        key = f"glue:{kind}:{variant}"
        rec.clear()
        try:
            with quiet():
                r = mod.gradient(dirobj, wrt, is_wrt_par=flag)
            got = "value-cuqiarray" if type(r) is CUQIarray else "value-ndarray"
        except ValueError:
            r = None; got = "ValueError"
        except NotImplementedError:
            r = None; got = "NotImplementedError"
        except Exception as e:  # noqa
            r = None; got = type(e).__name__
        bump(f"{kind}:{variant}:{got}")
        m_wp = np.array(b.decv(mo[0]))
        if mout.startswith("value") != got.startswith("value"):
            ctx.disagree(key, desc, mout, got, "Model.gradient: vector vs refusal differs from gradientOutcome")
            if got.startswith("value") and r is not None and not variant.startswith("samples"):
                a = np.asarray(r, dtype=float).ravel()
                f_dir = lambda z: float(direction @ np.asarray(mod.forward(np.asarray(z, dtype=float)), dtype=float).ravel())
                if a.shape == (n,):
                    b.oracle_value(ctx, key, desc, f_dir, a, m_wp, in_support=True)
                else:
                    ctx.fail(key, desc, "vector or refusal", f"shape {a.shape}", "neither a gradient vector nor a refusal")
            continue
        if not got.startswith("value"):
            if mout != got:
                ctx.note(f"glue {kind}/{variant}: refusal class {got}, model {mout} (class not demanded)")
            continue
        if mout != got:
            # the container of the output is not part of the property: recorded, not demanded
            bump("wrapping-differs-from-model")
            ctx.note(f"glue {kind}/{variant}: output container {got}, model {mout} (container not demanded)")
        a = np.asarray(r, dtype=float).ravel()
        if "wrt" in rec and not b.cmp_vec(b.decv(mo[1]), rec["wrt"].tolist(), 1e-9):
            ctx.disagree(key, desc, b.decv(mo[1]), rec["wrt"].tolist(), "array handed to _gradient_func differs from wrtFun (linGeo)")
        if "wrt_par" in rec and not b.cmp_vec(m_wp.tolist(), rec["wrt_par"].tolist(), 1e-9):
            ctx.disagree(key, desc, m_wp.tolist(), rec["wrt_par"].tolist(), "array handed to geometry.gradient differs from wrtPar (linGeo)")
        if a.shape != (n,):
            ctx.fail(key, desc, f"vector of length {n}", f"shape {a.shape}", "neither a gradient vector nor a refusal"); continue
        f_dir = lambda z: float(direction @ np.asarray(mod.forward(np.asarray(z, dtype=float)), dtype=float).ravel())
        b.oracle_value(ctx, key, desc, f_dir, a, m_wp, in_support=True)


# ----------------------------------------------------------------------------------------------------------------
def noninjective_geometries(ctx, cuqi, reps):
    """Domain geometries with their own `gradient` whose par2fun is NOT injective (x**2 with imap sqrt, x**4 with imap
    f**0.25, cosh with imap arccosh), evaluated at points with negative / mixed-sign components: fun2par(par2fun(x)) = |x|
    is not x there.  Model.gradient, Gaussian likelihood, Posterior and MultipleLikelihoodPosterior through matrix /
    function+adjoint / jacobian models; Lean: `lik` with G = the Jacobian of par2fun AT x; oracle on the object's logd.
    Generator protocol."""
    b = _base()
    D = cuqi.distribution
    G = cuqi.geometry
    from cuqi.model import Model, LinearModel
    rng = random.Random(ctx.seed * 86028121 + 3)
    cov = ctx.extra_cov.setdefault("noninjective_geometries", {})

    def bump(k):
        cov[k] = cov.get(k, 0) + 1

    MAPS = {"square": (lambda p: p ** 2, lambda f: np.sqrt(f), lambda p: 2 * p),
            "fourth": (lambda p: p ** 4, lambda f: np.asarray(f) ** 0.25, lambda p: 4 * p ** 3),
            "cosh": (lambda p: np.cosh(p), lambda f: np.arccosh(f), lambda p: np.sinh(p))}
    jobs = []; lines = []
    for rep_i in range(reps):
        for gname, (mp, imp, dmp) in MAPS.items():
            for mk in ("matrix", "fun+adjoint", "jacobian"):
                for target in ("model", "likelihood", "posterior", "multi"):
                    n = rng.choice([2, 3]); m = rng.choice([2, 3])
                    dom = G.MappedGeometry(G.Continuous1D(n), map=mp, imap=imp)
                    dom.gradient = lambda direction, wrt, dmp=dmp: dmp(np.asarray(wrt, dtype=float)) * np.asarray(direction)
                    A = np.array([[rng.randint(-2, 2) for _ in range(n)] for _ in range(m)], dtype=float)
                    Bq = np.zeros((m, n)) if mk != "jacobian" else np.array([[rng.choice([0, 1, -1, 0.5]) for _ in range(n)] for _ in range(m)], dtype=float)
                    rg = G.Continuous1D(m)
                    with quiet():
                        if mk == "matrix":
                            mod = LinearModel(A, range_geometry=rg, domain_geometry=dom)
                        elif mk == "fun+adjoint":
                            mod = LinearModel(lambda f, A=A: A @ f, adjoint=lambda r, A=A: A.T @ r, range_geometry=rg, domain_geometry=dom)
                        else:
                            mod = Model(lambda f, A=A, Bq=Bq: A @ f + Bq @ (f * f), rg, dom, jacobian=lambda f, A=A, Bq=Bq: A + 2 * Bq * f[None, :])
                    # mixed-sign point: at least one strictly negative component, none zero
                    x = np.array([rng.choice([-1, 1]) * _dy(rng, 0.25, 1.5) for _ in range(n)])
                    x[rng.randrange(n)] = -abs(x[0]) - 0.25
                    s2 = rng.choice([0.5, 1.0, 2.0])
                    data = _vec(rng, m, -3, 3); direction = _vec(rng, m, -2, 2)
                    fx = mp(x); J = A + 2 * Bq * fx[None, :]; Gm = np.diag(dmp(x))
                    Fv = A @ fx + Bq @ (fx * fx)
                    with quiet():
                        lik = D.Gaussian(mod, s2).to_likelihood(data)
                        pm = _vec(rng, n, -1, 1)
                        if target == "model":
                            obj = None
                        elif target == "likelihood":
                            obj = lik
                        elif target == "posterior":
                            obj = D.Posterior(lik, D.Gaussian(pm, 1.0, geometry=dom))
                        else:
                            xx = D.Gaussian(pm, 1.0, geometry=dom, name="x")
                            y1 = D.Gaussian(mod(xx), s2, name="y1")
                            y2 = D.Gaussian(mod(xx), 2 * s2, name="y2")
                            obj = D.JointDistribution(xx, y1, y2)(y1=data, y2=data)
                    if target == "model":
                        ln = f"lik {qv(direction)} {qm(J)} {qm(np.eye(m))} {qm(Gm)}"          # P = I, dev = direction
                    else:
                        ln = f"lik {qv(data - Fv)} {qm(J)} {qm(np.eye(m) / s2)} {qm(Gm)}"
                    lines.append(ln)
                    jobs.append((gname, mk, target, mod, obj, x, direction, pm, s2, ln))
    outs = iter((yield lines))

    for gname, mk, target, mod, obj, x, direction, pm, s2, ln in jobs:
        mo = next(outs).split()
        n = len(x)
        desc = {"noninjective-geometry": gname, "model": mk, "target": target, "x": x.tolist(), "line": ln}
        ctx.case("noninjective-geometry", desc)
        key = f"noninjective:{gname}:{mk}:{target}"
        if target == "model":
            call = lambda: mod.gradient(direction, x.copy())
            f_logd = lambda z: float(direction @ np.asarray(mod.forward(np.asarray(z, dtype=float))))
        else:
            call = lambda: obj.gradient(x.copy())
            f_logd = lambda z: float(np.asarray(obj.logd(np.asarray(z, dtype=float))).ravel()[0])
        st, exc, val = b.classify(call, n)
        bump(f"{gname}:{mk}:{target}:{st}")
        if st != "value":
            ctx.disagree(key, desc, "value", f"{st}({exc})", "gradient through a geometry with its own derivative is refused")
            ctx.fail(key, desc, "the chain-rule gradient", f"{st}({exc})", "a domain geometry supplying its own derivative is refused / no vector returned")
            continue
        if mo[0] == "value":
            mg = np.array(b.decv(mo[1]))
            if target == "posterior":
                mg = mg - (x - pm)
            elif target == "multi":
                mg = mg * 1.5 - (x - pm)           # second likelihood has twice the variance: factor 1 + 1/2
            if not b.cmp_vec(mg.tolist(), val.tolist(), 1e-8):
                ctx.disagree(key, desc, mg.tolist(), val.tolist(), "differs from likGrad with the geometry Jacobian at x")
        b.oracle_value(ctx, key, desc, f_logd, val, x, in_support=True)


# ----------------------------------------------------------------------------------------------------------------
def inplace_mutations(ctx, cuqi, reps):
    """Parameters given as arrays are modified IN PLACE after construction and first use — through the attribute
    (`dist.scale[i] = v`) and through the caller's array (which the object may alias) — without going through a setter.
    Whatever the object then regards as its parameters: its gradient must be the derivative of ITS OWN current logd
    (oracle on the same object; no assumption on whether the mutation is seen)."""
    b = _base()
    D = cuqi.distribution
    from cuqi.model import LinearModel
    rng = random.Random(ctx.seed * 67867967 + 29)
    cov = ctx.extra_cov.setdefault("inplace_mutations", {})

    def bump(k):
        cov[k] = cov.get(k, 0) + 1

    def specs(n):
        """(name, arrays, build, x-range (lo, hi) relative to the support, {param: ('pos'|'loc'|'unit')})"""
        def user(a):
            c, w = a["c"], a["w"]
            return D.UserDefinedDistribution(dim=n, logpdf_func=lambda x: -0.5 * float(np.sum(w * (x - c) ** 2)), gradient_func=lambda x: -(w * (x - c)))
        return [
            ("cauchy", lambda: {"location": _vec(rng, n, -1, 1), "scale": _vec(rng, n, 0.5, 2)}, lambda a: D.Cauchy(a["location"], a["scale"]), (-2, 2), {"location": "loc", "scale": "pos"}),
            ("beta", lambda: {"alpha": _vec(rng, n, 1, 3), "beta": _vec(rng, n, 1, 3)}, lambda a: D.Beta(a["alpha"], a["beta"]), (0.25, 0.75), {"alpha": "pos", "beta": "pos"}),
            ("invgamma", lambda: {"shape": _vec(rng, n, 1, 3), "location": _vec(rng, n, -2, -1), "scale": _vec(rng, n, 0.5, 2)},
             lambda a: D.InverseGamma(a["shape"], a["location"], a["scale"]), (0.5, 3), {"shape": "pos", "location": "loc", "scale": "pos"}),
            ("smoothedlaplace", lambda: {"location": _vec(rng, n, -1, 1), "scale": _vec(rng, n, 0.5, 2)},
             lambda a: D.SmoothedLaplace(a["location"], a["scale"], 0.25), (-2, 2), {"location": "loc", "scale": "pos"}),
            ("lognormal", lambda: {"mean": _vec(rng, n, -1, 1), "cov": _vec(rng, n, 0.5, 2)}, lambda a: D.Lognormal(a["mean"], a["cov"]), (0.5, 2.5), {"mean": "loc", "cov": "pos"}),
            ("gaussian-cov-vector", lambda: {"mean": _vec(rng, n, -1, 1), "cov": _vec(rng, n, 0.5, 2)}, lambda a: D.Gaussian(a["mean"], cov=a["cov"]), (-2, 2), {"mean": "loc", "cov": "pos"}),
            ("gaussian-prec-matrix", lambda: {"mean": _vec(rng, n, -1, 1), "prec": b_rand_spd(rng, n)}, lambda a: D.Gaussian(a["mean"], prec=a["prec"]), (-2, 2), {"mean": "loc", "prec": "pos"}),
            ("gaussian-cov-matrix", lambda: {"mean": _vec(rng, n, -1, 1), "cov": b_rand_spd(rng, n)}, lambda a: D.Gaussian(a["mean"], cov=a["cov"]), (-2, 2), {"mean": "loc", "cov": "pos"}),
            ("gaussian-sqrtcov-matrix", lambda: {"mean": _vec(rng, n, -1, 1), "sqrtcov": np.tril(_sqmat(rng, n))}, lambda a: D.Gaussian(a["mean"], sqrtcov=a["sqrtcov"]), (-2, 2), {"mean": "loc", "sqrtcov": "pos"}),
            ("gmrf", lambda: {"mean": _vec(rng, max(n, 3), -1, 1)}, lambda a: D.GMRF(a["mean"], 2.0), (-2, 2), {"mean": "loc"}),
            ("cmrf", lambda: {"location": _vec(rng, max(n, 3), -1, 1)}, lambda a: D.CMRF(a["location"], 0.5, geometry=len(a["location"])), (-2, 2), {"location": "loc"}),
            ("uniform", lambda: {"low": _vec(rng, n, -2, -1), "high": _vec(rng, n, 1, 2)}, lambda a: D.Uniform(a["low"], a["high"]), (-0.75, 0.75), {"low": "loc", "high": "pos"}),
            ("userdefined", lambda: {"c": _vec(rng, n, -1, 1), "w": _vec(rng, n, 0.5, 2)}, user, (-2, 2), {"c": "loc", "w": "pos"}),
            ("likelihood", lambda: {"A": _sqmat(rng, n), "data": _vec(rng, n, -2, 2)}, lambda a: D.Gaussian(LinearModel(a["A"]), 0.5).to_likelihood(a["data"]), (-2, 2), {"A": "pos", "data": "loc"}),
            ("posterior", lambda: {"A": _sqmat(rng, n), "data": _vec(rng, n, -2, 2), "mean": _vec(rng, n, -1, 1)},
             lambda a: D.Posterior(D.Gaussian(LinearModel(a["A"]), 0.5).to_likelihood(a["data"]), D.Gaussian(a["mean"], 1.0)), (-2, 2), {"A": "pos", "data": "loc", "mean": "loc"}),
        ]

    def attr_of(obj, name, pname):
        """the array the object exposes for this parameter (None if it has none)"""
        try:
            if name == "likelihood":
                return obj.data if pname == "data" else obj.model._matrix
            if name == "posterior":
                return {"data": obj.likelihood.data, "A": obj.model._matrix, "mean": obj.prior.mean}[pname]
            if name == "userdefined":
                return None
            return getattr(obj, pname)
        except Exception:  # noqa
            return None

    for rep_i in range(reps):
        n = rng.choice([2, 3])
        for name, mk_arrays, build, (lo, hi), params in specs(n):
            for pname, pkind in params.items():
                for via in ("caller", "attr"):
                    try:
                        with quiet():
                            arrs = mk_arrays()
                            obj = build(arrs)
                    except Exception as e:  # noqa
                        ctx.note(f"inplace object refused {name}: {e!r}"[:160]); continue
                    dim = obj.dim
                    x = _vec(rng, dim, lo, hi, 8)
                    f_logd = lambda z, obj=obj: float(np.asarray(obj.logd(np.asarray(z, dtype=float))).ravel()[0])
                    st0, _, g0 = b.classify(lambda: obj.gradient(x.copy()), dim)       # first use (fills any cache)
                    with quiet():
                        try:
                            f_logd(x)
                        except Exception:  # noqa
                            pass
                    target = arrs[pname] if via == "caller" else attr_of(obj, name, pname)
                    if not isinstance(target, np.ndarray) or not target.flags.writeable:
                        continue
                    # the in-place edit (keeps positivity / the support)
                    if pkind == "pos":
                        if rng.random() < 0.5:
                            target *= rng.choice([3.0, 0.5, 2.0])
                        else:
                            idx = tuple(rng.randrange(s) for s in target.shape)
                            if target.ndim == 2:
                                idx = (idx[0], idx[0])
                            target[idx] = target[idx] * 4.0
                    else:
                        target += rng.choice([0.5, -0.25, 0.125])
                    desc = {"inplace": name, "param": pname, "via": via, "x": x.tolist(),
                            "arrays-after": {k: np.asarray(v).tolist() for k, v in arrs.items()}}
                    ctx.case("inplace-mutation", desc)
                    key = f"inplace:{name}:{pname}:via-{via}"
                    st, exc, g = b.classify(lambda: obj.gradient(x.copy()), dim)
                    bump(f"{name}:{pname}:{via}:{st}{':changed' if (st == 'value' and st0 == 'value' and not b.cmp_vec(g0.tolist(), g.tolist(), 1e-12)) else ''}")
                    if st == "value":
                        b.oracle_value(ctx, key, desc, f_logd, g, x)
                    elif st in ("none", "not-vector"):
                        ctx.fail(key, desc, "vector or raise", st, "neither a gradient vector nor a refusal")
