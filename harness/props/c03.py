"""C03 — every gradient equals the derivative of the log-density, or is refused.

Correspondence: for each generated case the real `.gradient(x)` / `.logd(x)` are run in-process and
compared with the Lean model (Driver/C03.lean): status (value / FD value / raise / NaN / None /
not-a-vector), the gradient vector (exact rationals from the model where the closed form is
rational, doubles otherwise) and the log-density.
Oracle (implementation only): Richardson-extrapolated central differences of the object's own
`logd` against the vector its `gradient` returned; `None`/non-vector returns and finite vectors
outside the support are failures of the property as well.
"""
import math, struct
import numpy as np
from fractions import Fraction
from harness.core import import_cuqi, quiet, q, qv, qm, close

TOL = 1e-9        # model value vs implementation value
ORTOL = 2e-5      # numerical derivative vs returned gradient (relative to 1+|g|)


# ----------------------------------------------------------------------------- helpers
def dec(tok):
    """decode `q:<rat>` / `f:<bits>` into float"""
    kind, v = tok.split(":", 1)
    if kind == "q":
        return float(Fraction(v))
    return struct.unpack("<d", struct.pack("<Q", int(v)))[0]


def decv(tok):
    return [] if tok == "_" else [dec(t) for t in tok.split(",")]


# margins: largest observed deviation / tolerance per comparison family (must stay well below 1 on the unchanged tree)
MARGIN = {"oracle": {"max_ratio": 0.0, "where": None, "n": 0, "n_ratio_gt_0.1": 0},
          "model_vs_impl": {"max_ratio": 0.0, "where": None, "n": 0, "n_ratio_gt_0.1": 0}}


def _margin(kind, ratio, where):
    m = MARGIN[kind]
    if not math.isfinite(ratio):
        return
    m["n"] += 1
    if ratio > 0.1 and ratio <= 1.0:
        m["n_ratio_gt_0.1"] += 1
        top = m.setdefault("top", {})
        w = str(where)[:100]
        if w in top or len(top) < 60:
            top[w] = round(max(top.get(w, 0.0), float(ratio)), 3)
    if ratio <= 1.0 and ratio > m["max_ratio"]:
        m["max_ratio"] = float(ratio); m["where"] = str(where)[:160]


RETAINED = []     # (label, returned array object, byte snapshot) — re-verified at the end of the run (G8)
_CUR = {"label": None}


def classify(fn, dim):
    """run fn(); classify the result as the property sees it"""
    try:
        with quiet():
            r = fn()
    except Exception as e:  # noqa
        return "raise", type(e).__name__, None
    if r is None:
        return "none", None, None
    if isinstance(r, np.ndarray):
        RETAINED.append((_CUR["label"], r, r.tobytes()))
    a = np.asarray(r, dtype=float) if not hasattr(r, "todense") else np.asarray(r.todense(), dtype=float)
    if a.ndim == 2 and a.shape == (1, 1) and dim == 1:
        a = a.ravel()             # a 1x1 array for a scalar variable still carries the one derivative
    if a.ndim != 1 or a.shape[0] != dim:
        return "not-vector", None, a
    if not np.any(np.isfinite(a)):
        return "nan", None, a       # "reported as non-finite": no finite component (NaN, or inf for a 1-D Lognormal at 0)
    return "value", None, a


def num_grad(f, x, lo=None, hi=None):
    """Richardson-extrapolated central differences of scalar f at x, with an error estimate.
    lo/hi: optional open-interval bounds of the support per component (steps stay inside)."""
    x = np.asarray(x, dtype=float)
    n = len(x)
    g = np.zeros(n); err = np.zeros(n)
    for i in range(n):
        h = 1e-3 * (1.0 + abs(x[i]))
        if lo is not None and np.isfinite(lo[i]):
            h = min(h, 0.25 * (x[i] - lo[i]))
        if hi is not None and np.isfinite(hi[i]):
            h = min(h, 0.25 * (hi[i] - x[i]))
        def D(hh):
            e = np.zeros(n); e[i] = hh
            with quiet():
                return (float(f(x + e)) - float(f(x - e))) / (2 * hh)
        d1, d2 = D(h), D(h / 2)
        g[i] = (4 * d2 - d1) / 3
        err[i] = abs(d2 - d1)
    return g, err


def oracle_value(ctx, key, desc, logd, grad, x, lo=None, hi=None, tol=ORTOL, in_support=False):
    """property oracle on the implementation alone: returned vector == derivative of its own logd.
    returns True if it held."""
    with quiet():
        try:
            l0 = float(logd(np.asarray(x, dtype=float)))
        except Exception as e:  # noqa
            ctx.note(f"logd raised at {desc}: {e!r}"[:200]); return True
    g = np.asarray(grad, dtype=float)
    if not math.isfinite(l0):
        if in_support:
            # x is in the support by construction: a non-finite logd here is floating-point underflow
            # (Lognormal.logpdf = log(pdf)); nothing to differentiate numerically
            ctx.note(f"logd not finite at a support point (underflow), oracle skipped: {key}"); return True
        if np.any(np.isfinite(g)):
            ctx.fail(key + ":finite-outside-support", desc, "non-finite gradient where logd is not finite", g.tolist(),
                     "a finite gradient is returned outside the support")
            return False
        return True
    ng, err = num_grad(logd, x, lo, hi)
    if not np.all(np.isfinite(ng)):
        ctx.note(f"numerical derivative not finite at {desc}"); return True
    bound = tol * (1.0 + np.abs(g) + np.abs(ng)) + 4 * err
    with np.errstate(all="ignore"):
        _margin("oracle", float(np.max(np.abs(ng - g) / bound)) if np.all(np.isfinite(g)) else float("nan"), key)
    bad = np.abs(ng - g) > bound
    if np.any(bad) or not np.all(np.isfinite(g)):
        ctx.fail(key, desc, [float(v) for v in ng], [float(v) for v in g],
                 "returned gradient is not the derivative of the same object's log-density")
        return False
    return True


def input_variants(x):
    """the same numbers in other containers / dtypes / layouts (G1, G7, narrow dtypes)"""
    x = np.asarray(x, dtype=float)
    out = [("list", [float(v) for v in x])]
    if np.all(x == np.round(x)):
        out.append(("int64", x.astype(np.int64)))
        out.append(("int32", x.astype(np.int32)))
        out.append(("intlist", [int(v) for v in x]))
        if np.all(np.abs(x) <= 127):
            out.append(("int8", x.astype(np.int8)))
        if np.all((x >= 0) & (x <= 255)):
            out.append(("uint8", x.astype(np.uint8)))
        if np.all((x == 0) | (x == 1)):
            out.append(("bool", x.astype(bool)))
    if np.all(x.astype(np.float32).astype(float) == x):
        out.append(("float32", x.astype(np.float32)))
    if np.all(x.astype(np.float16).astype(float) == x):
        out.append(("float16", x.astype(np.float16)))
    out.append(("strided", np.repeat(x, 2)[::2]))
    out.append(("negstride", x[::-1].copy()[::-1]))
    ro = x.copy(); ro.setflags(write=False)
    out.append(("readonly", ro))
    return out


# numpy evaluates log/sqrt/... of int8/uint8/bool arrays in float16 and of float32 arrays in float32: the precision
# of the *input dtype's float companion* is all that can be demanded (floating point is not carried); wrap-around,
# truncation and logical arithmetic are O(1) errors and remain visible
VTOL = {"float32": 1e-4, "float16": 1e-1, "int8": 1e-1, "uint8": 1e-1, "bool": 1e-1}


def check_variants(ctx, key, desc, call, x, base, base_status="value"):
    """gradient at the same numbers in another representation: the same answer as for the float64 array (or a
    refusal) — the same vector inside the support, a non-finite vector outside it; the caller's array is never
    modified (G2)"""
    for name, xv in input_variants(x):
        snap = xv.tobytes() if isinstance(xv, np.ndarray) else list(xv)
        st, exc, val = classify(lambda: call(xv), len(x))
        after = xv.tobytes() if isinstance(xv, np.ndarray) else list(xv)
        d = {**desc, "variant": name}
        if snap != after:
            ctx.fail(key + f":input-{name}:mutated", d, "caller's point unchanged", "modified", "gradient modified the caller's evaluation point")
        if st == "raise":
            continue          # refusing an unusual container is allowed
        if base_status == "nan":
            if st != "nan":
                got = f"{st}: {None if val is None else val.tolist()}"
                ctx.disagree(key + f":input-{name}", d, "non-finite (as for the float64 point)", got, "status depends on the dtype of the point")
                ctx.fail(key + f":input-{name}", d, "non-finite gradient outside the support", got,
                         "a finite vector is returned outside the support when the evaluation point has another dtype")
            continue
        # float32/float16 input: transcendental functions are then evaluated in that precision (floating point is
        # not carried); dtype bugs (integer truncation/wrap, buffers of the input's dtype) are O(1)
        if st != "value" or not cmp_vec(list(base), val.tolist(), VTOL.get(name, 1e-7)):
            ctx.disagree(key + f":input-{name}", d, list(base), None if val is None else val.tolist(),
                         "same numbers in another dtype/layout give another gradient")
            ctx.fail(key + f":input-{name}", d, list(base), f"{st}: {None if val is None else val.tolist()}",
                     "gradient depends on the dtype/layout of the evaluation point, not only on its value")


def cmp_vec(model_vals, impl_vals, tol=TOL):
    if len(model_vals) != len(impl_vals):
        return False
    ok = all(close(a, b, tol) for a, b in zip(model_vals, impl_vals))
    if ok and tol > 0:
        try:
            r = max([abs(float(a) - float(b)) / (tol * (1.0 + max(abs(float(a)), abs(float(b))))) for a, b in zip(model_vals, impl_vals)
                     if math.isfinite(float(a)) and math.isfinite(float(b))] or [0.0])
            _margin("model_vs_impl", r, f"tol={tol}")
        except Exception:  # noqa
            pass
    return ok


def dy(rng, lo, hi, den=4):
    """random dyadic rational in [lo, hi]"""
    return rng.randint(int(lo * den), int(hi * den)) / den


# ----------------------------------------------------------------------------- the check
def run(ctx):
    cuqi = import_cuqi()
    import cuqi.distribution as D
    import cuqi.geometry as G
    from cuqi.model import Model, LinearModel, PDEModel
    thorough = ctx.tier == "thorough"
    S = ctx.scale
    rng = ctx.rng
    ctx.trusted += ["RExpr.evalFloat / lgammaF (driver float evaluation, compared to 1e-9)",
                    "numpy central differences with Richardson extrapolation (oracle)"]
    ctx.assumptions += [f"model-vs-implementation tolerance {TOL} (rel+abs); oracle tolerance {ORTOL}*(1+|g|) + 4*|D(h/2)-D(h)|",
                        "forward maps and Jacobians of the likelihood cases are generated together (user-supplied Jacobians are trusted data)",
                        "a 1x1 array returned for a scalar variable is accepted as the one-component gradient"]
    stat_hist = {}
    ctx.extra_cov["status_histogram"] = stat_hist
    mism = {"model_grad_ne_model_deriv": 0}
    ctx.extra_cov["model_internal"] = mism

    def bump(s):
        stat_hist[s] = stat_hist.get(s, 0) + 1
    import time as _time
    timing = {"lean_drive_s": 0.0, "lean_drive_calls": 0, "sections": {}}
    ctx.extra_cov["timing"] = timing
    _drive = ctx.lean.drive
    _built = {"ok": False}
    def _direct(lines):
        """later batches: the model modules were built (under the lock) by the first `drive` of this run; run the
        driver directly, same protocol and the same line-count check"""
        import subprocess
        from harness.core import LEAN
        if not lines:
            return []
        r = subprocess.run(["lake", "env", "lean", "--run", ctx.lean.driver_file], cwd=LEAN, input="\n".join(lines) + "\n",
                           capture_output=True, text=True, timeout=3000)
        out = r.stdout.split("\n")
        if out and out[-1] == "":
            out.pop()
        if r.returncode != 0 or len(out) != len(lines):
            raise RuntimeError(f"driver failed rc={r.returncode} got {len(out)} lines for {len(lines)}:\n" + r.stderr[-2000:])
        return out
    def drive_(lines, driver=None):
        t0 = _time.time()
        if _built["ok"] and driver is None:
            out = _direct(lines)
        else:
            out = _drive(lines, driver); _built["ok"] = True
        timing["lean_drive_s"] = round(timing["lean_drive_s"] + _time.time() - t0, 2); timing["lean_drive_calls"] += 1
        return out
    ctx.lean.drive = drive_
    _t_start = _time.time()
    _case = ctx.case
    def case_(kind, desc, nontrivial=True):
        timing["sections"][kind] = round(_time.time() - _t_start, 1)      # time at which the kind was last touched
        _CUR["label"] = (kind, desc)
        _case(kind, desc, nontrivial)
    ctx.case = case_
    RETAINED.clear()
    for _m in MARGIN.values():
        _m.update({"max_ratio": 0.0, "where": None, "n": 0, "n_ratio_gt_0.1": 0, "top": {}})
    ctx.extra_cov["margins"] = MARGIN

    # geometry makers -------------------------------------------------------
    def geom(kind, n):
        if kind == "default":
            return n
        if kind == "Continuous1D":
            return G.Continuous1D(n)
        if kind == "Discrete":
            return G.Discrete(n)
        if kind == "Image2D":
            k = int(round(math.sqrt(n)))
            return G.Image2D((k, k)) if k * k == n else G.Continuous1D(n)
        if kind == "Continuous2D":
            k = int(round(math.sqrt(n)))
            return G.Continuous2D((k, k)) if k * k == n else G.Continuous1D(n)
        if kind == "Mapped":
            return G.MappedGeometry(G.Continuous1D(n), map=lambda p: p ** 2, imap=lambda f: np.sqrt(f))
        if kind == "Mapped+grad":
            g = G.MappedGeometry(G.Continuous1D(n), map=lambda p: p ** 2, imap=lambda f: np.sqrt(f))
            g.gradient = lambda direction, wrt: 2 * wrt * direction
            return g
        if kind == "KL":
            return G.KLExpansion(np.linspace(0, 1, n), num_modes=n)
        if kind == "Step":
            return G.StepExpansion(np.linspace(0, 1, 2 * n), n_steps=n)
        raise ValueError(kind)
    ID_GEOMS = ["default", "Continuous1D", "Discrete", "Image2D", "Continuous2D"]
    GKIND = {**{k: "id" for k in ID_GEOMS}, "Mapped": "nonid", "KL": "nonid", "Step": "nonid", "Mapped+grad": "nonid-grad"}

    # ----------------------------------------------------------------------- 0. the list of identity geometries the guards use
    assumed = ctx.lean.drive(["idgeoms"])[0].split(",")
    actual = [c.__name__ for c in G._get_identity_geometries()]
    ctx.case("identity-geometry-list", {"assumed": assumed, "actual": actual})
    if sorted(assumed) != sorted(actual):
        ctx.disagree("identity-geometries:list", {"assumed": assumed, "actual": actual}, assumed, actual,
                     "cuqi.geometry._get_identity_geometries() is not the list the decision table assumes")
        # failing input search: a geometry newly treated as identity must not change a likelihood gradient (section 5 runs Mapped/KL/Step domains)

    # ======================================================================= 1. i.i.d. families
    def gen_iid(fam, n, mode):
        """returns (x, params[3] as lists, support bounds lo, hi) — mode: 'in' | 'out' | 'edge'"""
        def vec_or_scalar(gen):
            return [gen() for _ in range(n)] if rng.random() < 0.6 else [gen()]
        lo = hi = None
        if fam == "cauchy":
            p1 = vec_or_scalar(lambda: dy(rng, -3, 3)); p2 = vec_or_scalar(lambda: dy(rng, 0.25, 4))
            if mode != "in":
                p2[rng.randrange(len(p2))] = 0.0 if mode == "edge" else -dy(rng, 0.25, 2)
            x = [dy(rng, -5, 5, 8) for _ in range(n)]; p3 = []
        elif fam == "beta":
            p1 = vec_or_scalar(lambda: dy(rng, 0.5, 5)); p2 = vec_or_scalar(lambda: dy(rng, 0.5, 5))
            x = [rng.randint(2, 30) / 32 for _ in range(n)]; p3 = []
            lo, hi = [0.0] * n, [1.0] * n
            if mode == "edge":
                x[rng.randrange(n)] = rng.choice([0.0, 1.0])
            elif mode == "out":
                c = rng.random()
                if c < 0.5:
                    x[rng.randrange(n)] = rng.choice([-0.25, 1.5])
                elif c < 0.75:
                    p1[rng.randrange(len(p1))] = rng.choice([0.0, -1.0])
                else:
                    p2[rng.randrange(len(p2))] = rng.choice([0.0, -0.5])
        elif fam == "invgamma":
            p1 = vec_or_scalar(lambda: dy(rng, 0.5, 5)); p2 = vec_or_scalar(lambda: dy(rng, -2, 2)); p3 = vec_or_scalar(lambda: dy(rng, 0.25, 4))
            locs = [p2[j] if len(p2) > 1 else p2[0] for j in range(n)]
            x = [locs[j] + dy(rng, 0.25, 4, 8) for j in range(n)]
            lo, hi = locs, [math.inf] * n
            if mode == "edge":
                j = rng.randrange(n); x[j] = locs[j]
            elif mode == "out":
                j = rng.randrange(n); x[j] = locs[j] - dy(rng, 0.25, 2)
        elif fam == "smoothedlaplace":
            p1 = vec_or_scalar(lambda: dy(rng, -3, 3)); p2 = vec_or_scalar(lambda: dy(rng, 0.25, 4)); p3 = [rng.choice([1 / 1024, 1 / 64, 0.25, 1.0])]
            x = [dy(rng, -5, 5, 8) for _ in range(n)]
            if mode == "edge":      # x == location: the smoothing must keep the gradient finite (0)
                j = rng.randrange(n); x[j] = p1[j] if len(p1) > 1 else p1[0]
        elif fam == "mhn":
            p1 = [dy(rng, 0.5, 5)]; p2 = [dy(rng, 0.25, 3)]; p3 = [dy(rng, -3, 3)]
            x = [dy(rng, 0.25, 4, 8) for _ in range(n)]
            lo, hi = [0.0] * n, [math.inf] * n
            if mode == "edge":
                x[rng.randrange(n)] = 0.0
            elif mode == "out":
                x[rng.randrange(n)] = -dy(rng, 0.25, 2)
        elif fam == "lognormal":
            p1 = vec_or_scalar(lambda: dy(rng, -2, 2)); p2 = vec_or_scalar(lambda: dy(rng, 0.25, 4)); p3 = []
            x = [dy(rng, 0.25, 4, 8) for _ in range(n)]
            lo, hi = [0.0] * n, [math.inf] * n
            if mode == "edge":
                x[rng.randrange(n)] = 0.0
            elif mode == "out":
                x[rng.randrange(n)] = -dy(rng, 0.25, 2)
        elif fam == "uniform":
            p1 = vec_or_scalar(lambda: dy(rng, -3, 0)); p2 = vec_or_scalar(lambda: dy(rng, 0.25, 4)); p3 = []
            los = [p1[j] if len(p1) > 1 else p1[0] for j in range(n)]; his = [p2[j] if len(p2) > 1 else p2[0] for j in range(n)]
            x = [los[j] + (his[j] - los[j]) * rng.randint(1, 7) / 8 for j in range(n)]
            lo, hi = los, his
            if mode == "edge":
                j = rng.randrange(n); x[j] = rng.choice([los[j], his[j]])
            elif mode == "out":
                j = rng.randrange(n); x[j] = rng.choice([los[j] - 0.5, his[j] + 0.25])
        return x, [p1, p2, p3], lo, hi

    def make_iid(fam, n, P, gkind="default"):
        def arr(v):
            return np.array(v, dtype=float) if len(v) > 1 else float(v[0])
        kw = {"geometry": geom(gkind, n)}
        p1, p2, p3 = P
        if fam == "cauchy":
            return D.Cauchy(arr(p1), arr(p2), **kw)
        if fam == "beta":
            return D.Beta(arr(p1), arr(p2), **kw)
        if fam == "invgamma":
            return D.InverseGamma(arr(p1), arr(p2), arr(p3), **kw)
        if fam == "smoothedlaplace":
            return D.SmoothedLaplace(arr(p1), arr(p2), float(p3[0]), **kw)
        if fam == "mhn":
            return D.ModifiedHalfNormal(float(p1[0]), float(p2[0]), float(p3[0]), **kw)
        if fam == "lognormal":
            return D.Lognormal(np.array(p1 * (n if len(p1) == 1 else 1), dtype=float), arr(p2), **kw)
        if fam == "uniform":
            return D.Uniform(arr(p1), arr(p2), **kw)
        raise ValueError(fam)

    IID = ["cauchy", "beta", "invgamma", "smoothedlaplace", "mhn", "lognormal", "uniform"]
    cases = []
    per = 30 * S
    for fam in IID:
        for k in range(per):
            n = 1 if (fam == "mhn" and k % 3 != 2) else rng.choice([1, 2, 3, 4, 5] if not thorough else [1, 2, 3, 4, 5, 9, 16, 40])
            mode = ["in", "in", "in", "in", "edge", "out"][k % 6]
            x, P, lo, hi = gen_iid(fam, n, mode)
            if k % 15 == 14 and n >= 2 and fam not in ("mhn",):
                mode = "malformed"            # a parameter vector whose length is neither 1 nor n
                P[0] = list(P[0])[:1] * (n + 1)
            cases.append((fam, n, mode, x, P, lo, hi))
    lines = []
    for fam, n, mode, x, P, lo, hi in cases:
        lines.append(f"iid {fam} {qv(x)} {qv(P[0])} {qv(P[1])} {qv(P[2])}")
    outs = ctx.lean.drive(lines)
    for (fam, n, mode, x, P, lo, hi), out in zip(cases, outs):
        desc = {"family": fam, "n": n, "mode": mode, "x": x, "params": P}
        ctx.case(f"iid-{fam}", desc)
        dimcls = "dim1" if n == 1 else "dim>1"
        key = f"{fam}:{dimcls}:{mode}"
        try:
            with quiet():
                dist = make_iid(fam, n, P)
        except Exception as e:  # noqa
            ctx.note(f"constructor refused {desc}: {e!r}"[:160]); continue
        xa = np.array(x, dtype=float)
        st, exc, val = classify(lambda: dist.gradient(xa), n)
        mtoks = out.split()
        mst = mtoks[0]
        bump(f"{fam}:{st}")
        if st != mst:
            ctx.disagree(key + ":status", desc, mst, f"{st}({exc})", "status differs")
            if st in ("value",):
                oracle_value(ctx, key + ":status", desc, dist.logd, val, xa, lo, hi)
            elif st == "nan":
                with quiet():
                    try:
                        l0 = float(dist.logd(xa))
                    except Exception:  # noqa
                        l0 = float("nan")
                if math.isfinite(l0):
                    ctx.fail(key + ":status", desc, "a finite gradient (logd is finite here)", "NaN", "NaN gradient where the log-density is finite")
            elif st == "none":
                ctx.fail(key + ":status", desc, "vector or raise", "None", "gradient returns None")
            elif st == "not-vector":
                ctx.fail(key + ":status", desc, f"vector of length {n}", f"shape {val.shape}", "gradient does not return a vector")
            continue
        if st == "not-vector":
            ctx.fail(f"{fam}:{dimcls}:not-a-vector", desc, f"vector of length {n}", f"array of shape {None if val is None else val.shape}",
                     "gradient does not return a vector of the variable's dimension")
            continue
        if st == "nan":
            # outside the support: the implementation's own logd must be non-finite there (else NaN is wrong)
            with quiet():
                try:
                    l0 = float(dist.logd(xa))
                except Exception:  # noqa
                    l0 = float("nan")
            if math.isfinite(l0):
                ctx.fail(key + ":nan-inside-support", desc, "a finite gradient (logd is finite here)", "NaN", "NaN gradient where the log-density is finite")
            else:
                check_variants(ctx, key, desc, dist.gradient, xa, None, base_status="nan")
            continue
        if st == "value":
            mg = decv(mtoks[2]); md = decv(mtoks[3]); ml = dec(mtoks[1])
            if not cmp_vec(md, mg, 1e-9):
                mism["model_grad_ne_model_deriv"] += 1
            ok = True
            if not cmp_vec(mg, val.tolist()):
                ctx.disagree(key, desc, mg, val.tolist(), "gradient differs from the model's closed form"); ok = False
            with quiet():
                il = float(dist.logd(xa))
            if not close(ml, il, 1e-9):
                ctx.disagree(key + ":logd", desc, ml, il, "logd differs from the model's closed form")
                # a different logd is C04's business unless the gradient stops being its derivative: ask the oracle
                if oracle_value(ctx, key + ":logd", desc, dist.logd, val, xa, lo, hi):
                    # same derivative: the constant changed only — not a C03 failure; withdraw the disagreement
                    ctx.disagreements.pop()
                    ctx.note(f"logd constant differs from model at {fam} {dimcls} (gradient still its derivative)")
                continue
            held = oracle_value(ctx, key, desc, dist.logd, val, xa, lo, hi)
            if ok and held and mode == "in":
                check_variants(ctx, key, desc, dist.gradient, xa, val)

    # ======================================================================= 2. status table: geometry / conditional / FD
    st_cases = []
    fams = {
        "gaussian": lambda n, g, cond: D.Gaussian((lambda s: s * np.ones(n)) if cond else np.arange(n) / 4.0, 2.0, geometry=g),
        "gmrf": lambda n, g, cond: D.GMRF((lambda s: s * np.ones(n)) if cond else np.arange(n) / 4.0, 2.0, geometry=g),
        "cmrf": lambda n, g, cond: D.CMRF((lambda s: s * np.ones(n)) if cond else np.zeros(n), 2.0, geometry=g),
        "cauchy": lambda n, g, cond: D.Cauchy((lambda s: s * np.ones(n)) if cond else np.arange(n) / 4.0, 2.0, geometry=g),
        "beta": lambda n, g, cond: D.Beta((lambda s: s * np.ones(n)) if cond else 2.0, 3.0, geometry=g),
        "invgamma": lambda n, g, cond: D.InverseGamma((lambda s: s * np.ones(n)) if cond else 2.0, -1.0, 1.5, geometry=g),
        "lognormal": lambda n, g, cond: D.Lognormal((lambda s: s * np.ones(n)) if cond else np.arange(n) / 4.0, 2.0, geometry=g),
        "smoothedlaplace": lambda n, g, cond: D.SmoothedLaplace((lambda s: s * np.ones(n)) if cond else np.arange(n) / 4.0, 2.0, 0.25, geometry=g),
        "mhn": lambda n, g, cond: D.ModifiedHalfNormal((lambda s: s) if cond else 2.0, 1.0, 0.5, geometry=g),
        "uniform": lambda n, g, cond: D.Uniform((lambda s: s * np.ones(n)) if cond else -1.0, 2.0, geometry=g),
        "userwithgrad": lambda n, g, cond: D.UserDefinedDistribution(dim=n, logpdf_func=lambda x: -float(np.sum(x ** 4)) / 4, gradient_func=lambda x: -x ** 3),
        "usernograd": lambda n, g, cond: D.UserDefinedDistribution(dim=n, logpdf_func=lambda x: -float(np.sum(x ** 4)) / 4),
        "other:Normal": lambda n, g, cond: D.Normal(np.arange(n) / 4.0, 2.0, geometry=g),
        "other:Gamma": lambda n, g, cond: D.Gamma(2.0, 1.5, geometry=g),
        "other:Laplace": lambda n, g, cond: D.Laplace(np.arange(n) / 4.0, 2.0, geometry=g),
        "other:LMRF": lambda n, g, cond: D.LMRF(np.zeros(n), 2.0, geometry=g),
    }
    geoms_all = ID_GEOMS + ["Mapped", "Mapped+grad", "KL", "Step"]
    for fam in fams:
        for gk in geoms_all:
            for cond in (False, True):
                for fd in (False, True):
                    if fam.startswith("user") and (gk != "default" or cond):
                        continue
                    if fam.startswith("other") and cond:
                        continue
                    n = 1 if fam == "mhn" and gk == "default" and rng.random() < 0.6 else 4
                    st_cases.append((fam, gk, cond, fd, n))
    slines = []
    for fam, gk, cond, fd, n in st_cases:
        f0 = fam.split(":")[0]
        slines.append(f"status {f0} {GKIND[gk]} {'callable' if cond else 'no'} {int(fd)} 1 {'matrix' if f0 == 'gaussian' else 'na'} {int(n > 1)}")
    souts = ctx.lean.drive(slines)
    for (fam, gk, cond, fd, n), mst in zip(st_cases, souts):
        desc = {"family": fam, "geometry": gk, "conditional": cond, "fd": fd, "n": n}
        ctx.case("status", desc)
        key = f"{fam}:{GKIND[gk]}:{'callable-param' if cond else 'plain'}:{'fd' if fd else 'closed'}"
        try:
            with quiet():
                dist = fams[fam](n, geom(gk, n), cond)
                if fd:
                    dist.enable_FD(1e-7)
        except Exception as e:  # noqa
            ctx.note(f"constructor refused {desc}: {e!r}"[:160]); continue
        xa = np.array([0.5, 0.25, 0.75, 0.375][:n]) if fam in ("beta", "mhn", "lognormal", "other:Gamma", "uniform", "invgamma") else np.array([0.5, -1.25, 2.0, 1.375][:n])
        st, exc, val = classify(lambda: dist.gradient(xa), n)
        ist = "value-fd" if (st == "value" and mst == "value-fd") else st
        bump(f"status:{fam.split(':')[0]}:{st}")
        if ist != mst:
            ctx.disagree(key + ":status", desc, mst, f"{st}({exc})", "status differs from the decision table")
            if fd and mst == "value-fd" and st == "raise":
                ctx.fail(key + ":status", desc, "finite-difference gradient (FD enabled)", f"raise({exc})",
                         "with the finite-difference option switched on the call still refuses")
        # oracle on what the implementation did
        if st == "none":
            ctx.fail(f"{fam}:{'callable-param' if cond else 'plain'}:returns-none", desc, "raise (no analytic gradient available)", "None",
                     "gradient returns None instead of raising when no analytic gradient is available")
        elif st == "not-vector":
            ctx.fail(f"{fam}:{'dim1' if n == 1 else 'dim>1'}:not-a-vector", desc, f"vector of length {n}", f"shape {val.shape}",
                     "gradient does not return a vector of the variable's dimension")
        elif st == "value" and not cond:
            oracle_value(ctx, key, desc, dist.logd, val, xa, tol=(1e-4 if fd else ORTOL))
        elif st == "nan":
            ctx.fail(key + ":nan-inside-support", desc, "finite gradient", "NaN", "NaN gradient at a point of the support")

    # ======================================================================= 3. Gaussian forms
    def rand_spd(n):
        L = np.tril(np.array([[dy(rng, -1, 1, 2) for _ in range(n)] for _ in range(n)]))
        for i in range(n):
            L[i, i] = rng.choice([1.0, 2.0, 0.5])
        return L @ L.T

    def rand_tri(n, lower):
        R = np.array([[dy(rng, -1, 1, 2) for _ in range(n)] for _ in range(n)])
        R = np.tril(R) if lower else np.triu(R)
        for i in range(n):
            R[i, i] = rng.choice([1.0, 2.0, 0.5, -1.0])
        return R

    gcases = []
    for k in range(96 * S):
        n = rng.choice([1, 2, 3, 4, 5] if not thorough else [1, 2, 3, 5, 8, 12])
        form = ["cov", "prec", "sqrtcov", "sqrtprec"][k % 4]
        shape = rng.choice(["scalar", "vector", "diagmat", "dense", "dense"])
        if shape == "scalar" or (n == 1 and shape == "vector"):
            M = np.array([[rng.choice([0.25, 0.5, 1.0, 2.0, 4.0])]]); shape = "scalar"
        elif shape == "vector":
            M = np.array([[rng.choice([0.25, 0.5, 1.0, 2.0, 4.0]) for _ in range(n)]])
        elif shape == "diagmat":
            M = np.diag([rng.choice([0.25, 0.5, 1.0, 2.0, 4.0]) for _ in range(n)]) if n > 1 else np.array([[2.0]])
        else:
            if form in ("cov", "prec"):
                M = rand_spd(n)
                if k % 11 == 0 and n > 1:
                    M = M.copy(); M[0, 1] += 1.0    # malformed: not symmetric
            else:
                M = rand_tri(n, lower=(k % 8 < 4))
                if k % 13 == 0 and n > 1:
                    M = M + np.triu(np.ones((n, n)), 1) * 0.5   # non-triangular, non-symmetric square root
        mu = [dy(rng, -3, 3) for _ in range(n)] if rng.random() < 0.8 else [dy(rng, -3, 3)]
        x = [dy(rng, -4, 4, 8) for _ in range(n)]
        if k % 10 == 9:
            x = [mu[j] if len(mu) > 1 else mu[0] for j in range(n)]      # exactly at the mean: gradient exactly 0
        gcases.append((form, shape, n, x, mu, M))
    glines = [f"gauss {form} {qv(x)} {qv(mu)} {qm(M)}" for form, shape, n, x, mu, M in gcases]
    FDEPS = 2.0 ** -12
    for form, shape, n, x, mu, M in gcases:      # forward differences of the quadratic, exact (used for the sqrtprec form)
        Pq = M.T @ M if shape not in ("scalar", "vector") else (np.eye(n) * M[0, 0] ** 2 if shape == "scalar" else np.diag(M[0] ** 2))
        glines.append(f"fdquad {q(FDEPS)} {qv(x)} {qv(list(np.array(mu) * np.ones(n)))} {qm(Pq)}")
    gouts_all = ctx.lean.drive(glines)
    gouts, fdouts = gouts_all[:len(gcases)], gouts_all[len(gcases):]
    for (form, shape, n, x, mu, M), out, fdout in zip(gcases, gouts, fdouts):
        desc = {"gaussian": form, "shape": shape, "n": n, "x": x, "mean": mu, "M": M.tolist()}
        ctx.case(f"gauss-{form}", desc)
        arg = float(M[0, 0]) if shape == "scalar" else (M[0] if shape == "vector" else M)
        mean = np.array(mu) if len(mu) > 1 else float(mu[0])
        if len(mu) == 1 and n > 1:
            mean = np.full(n, mu[0])
        cls = "prec-vector" if (form == "prec" and shape == "vector") else f"{form}-{shape}"
        key = f"Gaussian:{cls}:{'dim1' if n == 1 else 'dim>1'}"
        mtoks = out.split()
        try:
            with quiet():
                dist = D.Gaussian(mean, **{form: arg})
        except Exception as e:  # noqa
            if mtoks[0] != "raise" or len(mtoks) > 1:
                ctx.disagree(key + ":ctor", desc, out[:80], f"raise({type(e).__name__})", "constructor refusal differs")
            bump("gaussian:ctor-raise")
            continue
        xa = np.array(x, dtype=float)
        st, exc, val = classify(lambda: dist.gradient(xa), n)
        bump(f"gaussian-{form}:{st}")
        if st != mtoks[0]:
            ctx.disagree(key + ":status", desc, mtoks[0], f"{st}({exc})", "status differs")
            if st == "value":
                oracle_value(ctx, key + ":status", desc, dist.logd, val, xa)
            continue
        # logd through sqrtprec: logd(x) - logd(mean) == -quad/2
        if len(mtoks) > 1:
            quad = dec(mtoks[1])
            with quiet():
                dl = float(dist.logd(xa)) - float(dist.logd(np.array(mean) * np.ones(n)))
            if not close(dl, -quad / 2, 1e-8):
                ctx.disagree(key + ":logd", desc, -quad / 2, dl, "logd(x)-logd(mean) differs from -quad/2")
                if st == "value":
                    oracle_value(ctx, key + ":logd", desc, dist.logd, val, xa)
        if st == "not-vector":
            ms = dec(mtoks[2])
            if val is not None and val.size == 1 and not close(ms, float(val.ravel()[0])):
                ctx.disagree(key, desc, ms, float(val.ravel()[0]), "scalar returned differs from the model")
            ctx.fail(f"Gaussian:prec-vector:{'dim1' if n == 1 else 'dim>1'}:not-a-vector", desc, f"vector of length {n} = {decv(mtoks[3])}",
                     f"shape {val.shape}: {val.tolist()}", "Gaussian with a 1-D `prec` returns the dot product prec·(x-mean) instead of the gradient vector")
        elif st == "value":
            mg = decv(mtoks[2]); md = decv(mtoks[3])
            if not cmp_vec(md, mg):
                mism["model_grad_ne_model_deriv"] += 1
            if not cmp_vec(mg, val.tolist(), 1e-8):
                ctx.disagree(key, desc, mg, val.tolist(), "gradient differs from the model")
            if oracle_value(ctx, key, desc, dist.logd, val, xa):
                check_variants(ctx, key, desc, dist.gradient, xa, val)
        elif st == "raise" and form == "sqrtprec":
            # FD must then give the derivative of the same logd (exact model: fdquad)
            with quiet():
                dist.enable_FD(FDEPS)
            st2, exc2, val2 = classify(lambda: dist.gradient(xa), n)
            ctx.case("gauss-sqrtprec-fd", desc)
            if st2 != "value":
                ctx.disagree(key + ":fd", desc, "value-fd", f"{st2}({exc2})", "FD status differs")
                ctx.fail(key + ":fd", desc, "finite-difference gradient", f"{st2}({exc2})", "enable_FD does not produce a gradient")
            else:
                mfd = decv(fdout.split()[1])
                if not cmp_vec(mfd, val2.tolist(), 1e-6):
                    ctx.disagree(key + ":fd", desc, mfd, val2.tolist(), "FD gradient differs from the model's forward difference")
                # the forward difference of a quadratic has the exact truncation error eps/2*P_ii (theorem fd_quadratic_exact)
                # = |model FD - model derivative|: allow twice that on top of the noise tolerance
                trunc = max([abs(a_ - b_) for a_, b_ in zip(mfd, decv(mtoks[3]))] or [0.0])
                oracle_value(ctx, key + ":fd", desc, dist.logd, val2, xa, tol=2e-3 + 2 * trunc)

    # ----------------------------------------------------------------------- 3b. Lognormal prior, every covariance form
    lncases = []
    for k in range(24 * S):
        n = rng.choice([1, 2, 3, 4])
        shape = ["scalar", "vector", "dense", "dense"][k % 4]
        if shape == "scalar" or (n == 1):
            C = np.array([[rng.choice([0.5, 1.0, 2.0, 4.0])]]); shape = "scalar"
        elif shape == "vector":
            C = np.array([[rng.choice([0.5, 1.0, 2.0, 4.0]) for _ in range(n)]])
        else:
            C = rand_spd(n)
        mu = [dy(rng, -2, 2) for _ in range(n)]
        x = [dy(rng, 0.25, 4, 8) for _ in range(n)]
        if k % 6 == 5:
            x[rng.randrange(n)] = rng.choice([0.0, -0.5])
        lncases.append((shape, n, x, mu, C))
    lnlines = []
    for shape, n, x, mu, C in lncases:
        lx = [math.log(v) if v > 0 else 0.0 for v in x]
        lnlines.append(f"logndense {qv(x)} {qv(lx)} {qv(mu)} {qm(C)}")
    lnouts = ctx.lean.drive(lnlines)
    for (shape, n, x, mu, C), out in zip(lncases, lnouts):
        desc = {"lognormal": shape, "n": n, "x": x, "mean": mu, "cov": C.tolist()}
        ctx.case("lognormal-prior", desc)
        key = f"Lognormal:cov-{shape}:{'dim1' if n == 1 else 'dim>1'}"
        arg = float(C[0, 0]) if shape == "scalar" else (C[0] if shape == "vector" else C)
        try:
            with quiet():
                dist = D.Lognormal(np.array(mu), arg)
        except Exception as e:  # noqa
            ctx.note(f"constructor refused {desc}: {e!r}"[:160]); continue
        xa = np.array(x, dtype=float)
        st, exc, val = classify(lambda: dist.gradient(xa), n)
        bump(f"lognormal-prior:{st}")
        mt = out.split()
        if st != mt[0]:
            ctx.disagree(key + ":status", desc, mt[0], f"{st}({exc})", "status differs")
            if st == "value":
                oracle_value(ctx, key + ":status", desc, dist.logd, val, xa, [0.0] * n, None)
            continue
        if st == "value":
            if not cmp_vec(decv(mt[1]), val.tolist(), 1e-8):
                ctx.disagree(key, desc, decv(mt[1]), val.tolist(), "gradient differs from the model")
            oracle_value(ctx, key, desc, dist.logd, val, xa, [0.0] * n, None)
        elif st == "nan":
            with quiet():
                l0 = float(dist.logd(xa))
            if math.isfinite(l0):
                ctx.fail(key + ":nan-inside-support", desc, "finite gradient", "NaN", "NaN gradient where the log-density is finite")

    # ======================================================================= 4. GMRF / CMRF
    mcases = []
    for k in range(45 * S):
        pd = 1 if k % 3 else 2
        order = rng.choice([0, 1, 2]); bc = rng.choice(["zero", "periodic", "neumann"])
        n = rng.choice([3, 4, 5, 6, 7] if pd == 1 else [3, 4])
        if thorough and pd == 1:
            n = rng.choice([3, 4, 5, 8, 13, 24, 40])
        dim = n if pd == 1 else n * n
        prec = rng.choice([0.5, 1.0, 2.0, 4.0])
        mu = [dy(rng, -3, 3) for _ in range(dim)] if k % 4 else [0.0] * dim
        x = [dy(rng, -4, 4, 8) for _ in range(dim)]
        mcases.append(("gmrf", pd, order, bc, n, prec, x, mu))
    # non-zero CONSTANT mean/location (scalar form broadcast over the geometry, and constant-vector form), every
    # BC, 1-D and 2-D: a constant shift is annihilated by the periodic/neumann operators but NOT by the zero-BC one
    for fam_ in ("cmrf", "gmrf"):
        for pd in (1, 2):
            for bc in ("zero", "periodic", "neumann"):
                for form_ in ("scalar", "vector"):
                    for rep in range(S):
                        n = rng.choice([3, 4, 5] if pd == 1 else [3, 4])
                        dim = n if pd == 1 else n * n
                        cst = rng.choice([-2.5, -1.0, 0.5, 1.5, 3.0])
                        mu = [cst] if form_ == "scalar" else [cst] * dim
                        x = [dy(rng, -4, 4, 8) for _ in range(dim)]
                        mcases.append((fam_, pd, 1, bc, n, rng.choice([0.5, 1.0, 2.0]), x, mu))
    for k in range(45 * S):
        pd = 1 if k % 3 else 2
        bc = rng.choice(["zero", "periodic", "neumann"])
        n = rng.choice([3, 4, 5, 6, 7] if pd == 1 else [3, 4])
        dim = n if pd == 1 else n * n
        scale = rng.choice([0.5, 1.0, 2.0, 4.0])
        loc = [dy(rng, -3, 3) for _ in range(dim)] if k % 2 else [0.0] * dim   # DESIGN §5 #1: non-zero location
        x = [dy(rng, -4, 4, 8) for _ in range(dim)]
        mcases.append(("cmrf", pd, 1, bc, n, scale, x, loc))
    mlines = []
    for fam, pd, order, bc, n, par, x, mu in mcases:
        if fam == "gmrf":
            mlines.append(f"gmrf {pd} {order} {bc} {n} {q(par)} {qv(x)} {qv(mu)}")
        else:
            mlines.append(f"cmrf {pd} {bc} {n} {q(par)} {qv(x)} {qv(mu)}")
    mouts = ctx.lean.drive(mlines)
    for (fam, pd, order, bc, n, par, x, mu), out in zip(mcases, mouts):
        dim = n if pd == 1 else n * n
        desc = {"family": fam, "pd": pd, "order": order, "bc": bc, "n": n, "par": par, "x": x, "loc": mu}
        ctx.case(f"{fam}{pd}D", desc)
        kw = {"geometry": n} if pd == 1 else {"geometry": G.Image2D((n, n))}
        nz = "location-nonzero" if any(v != 0 for v in mu) else "location-zero"
        if any(v != 0 for v in mu) and len(set(mu)) == 1:
            nz = "location-constant-" + ("scalar" if len(mu) == 1 else "vector")
        key = f"{fam.upper()}:{pd}D:{bc}:order{order}:{nz}"
        try:
            with quiet():
                loc_ = float(mu[0]) if len(mu) == 1 else np.array(mu)
                dist = D.GMRF(loc_, par, bc_type=bc, order=order, **kw) if fam == "gmrf" else D.CMRF(loc_, par, bc_type=bc, **kw)
        except Exception as e:  # noqa
            ctx.note(f"constructor refused {desc}: {e!r}"[:160]); continue
        xa = np.array(x, dtype=float)
        st, exc, val = classify(lambda: dist.gradient(xa), dim)
        bump(f"{fam}:{st}")
        mtoks = out.split()
        if st != mtoks[0]:
            ctx.disagree(key + ":status", desc, mtoks[0], f"{st}({exc})", "status differs")
            continue
        mg = decv(mtoks[2]); md = decv(mtoks[3])
        if not cmp_vec(md, mg):
            mism["model_grad_ne_model_deriv"] += 1
        if not cmp_vec(mg, val.tolist(), 1e-9):
            ctx.disagree(key + ":grad-ne-deriv", desc, mg, val.tolist(), "gradient differs from the model")
        if fam == "gmrf":
            # the GMRF constant can be NaN (C20 finding: order-2 neumann): use differences of the quadratic part via _prec_op
            mu_full = np.array(mu, dtype=float) * np.ones(dim)
            logd = lambda z: -0.5 * par * float((z - mu_full) @ (dist._prec_op @ (z - mu_full)))
            with quiet():
                l_x, l_m = float(dist.logd(xa)), float(dist.logd(mu_full))
            if math.isfinite(l_x) and math.isfinite(l_m):
                logd = dist.logd
                if not close(l_x - l_m, -dec(mtoks[1]) / 2, 1e-8):
                    ctx.disagree(key + ":grad-ne-deriv", desc, -dec(mtoks[1]) / 2, l_x - l_m, "logd(x)-logd(mean) differs from the model")
            oracle_value(ctx, key + ":grad-ne-deriv", desc, logd, val, xa)
        else:
            with quiet():
                il = float(dist.logd(xa))
            if not close(dec(mtoks[1]), il, 1e-9):
                ctx.disagree(key + ":grad-ne-deriv", desc, dec(mtoks[1]), il, "logd differs from the model")
            oracle_value(ctx, key + ":grad-ne-deriv", desc, dist.logd, val, xa)

    # ======================================================================= 5. likelihoods, posteriors, multiple likelihoods
    def rand_forward(m, p):
        """F(z) = A z + B z^2 + c * z_a z_b  (rows), exact on dyadic input; returns (F, J, is_linear)"""
        A = np.array([[rng.randint(-2, 2) for _ in range(p)] for _ in range(m)], dtype=float)
        lin = rng.random() < 0.35
        B = np.zeros((m, p)) if lin else np.array([[rng.choice([0, 0, 1, -1, 0.5]) for _ in range(p)] for _ in range(m)], dtype=float)
        F = lambda z: A @ z + B @ (z * z)
        J = lambda z: A + 2 * B * z[None, :]
        return F, J, lin, A

    lcases = []
    MODELS = ["matrix", "fun+adjoint", "jacobian", "direction-jacobian", "pde-jacobian", "pde-gradient", "no-gradient", "pde-none"]
    DGEOMS = ["default", "Continuous1D", "Mapped+grad", "Discrete", "Mapped+grad", "Mapped", "default", "Step"]
    for k in range(144 * S):
        m = rng.choice([1, 2, 3]); n = rng.choice([1, 2, 3, 4])
        mk = MODELS[k % len(MODELS)]
        dg = DGEOMS[(k // len(MODELS)) % len(DGEOMS)] if k % 5 else "default"
        rgk = "Step" if k % 17 == 16 else "default"
        F, J, lin, A = rand_forward(m, n)
        if mk in ("matrix", "fun+adjoint"):
            F, J, lin = (lambda z, A=A: A @ z), (lambda z, A=A: A), True
        dform = rng.choice(["cov-scalar", "cov-vector", "cov-dense", "cov-dense", "prec-dense", "prec-dense", "sqrtcov-dense", "sqrtcov-dense", "sqrtprec-dense", "prec-vector",
                              "lognormal-cov-vector", "lognormal-cov-dense", "lognormal-cov-dense"])
        prior = rng.choice(["none", "gaussian", "cauchy", "gmrf", "two-likelihoods"])
        fd = (k % 7 == 3)
        lcases.append((m, n, mk, dg, rgk, F, J, lin, A, dform, prior, fd))

    pending = []
    import itertools
    pkeys = list(itertools.product((0, 1), ("id", "nonid", "nonid-grad"), (0, 1), (0, 1), (0, 1), ("none", "twolik", "gaussian", "cauchy", "gmrf"), (0, 1)))
    POST = dict(zip(pkeys, ctx.lean.drive(["poststatus " + " ".join(str(t) for t in k) for k in pkeys])))
    for (m, n, mk, dg, rgk, F, J, lin, A, dform, prior, fd) in lcases:
        desc = {"likelihood": dform, "model": mk, "domain_geometry": dg, "range_geometry": rgk, "m": m, "n": n, "prior": prior, "fd": fd, "linear": lin}
        ctx.case(f"lik-{mk}", desc)
        dgeo = geom(dg, n); rgeo = geom(rgk, m)
        # --- the model object
        try:
            with quiet():
                if mk == "matrix":
                    mod = LinearModel(A, range_geometry=rgeo, domain_geometry=dgeo)
                elif mk == "fun+adjoint":
                    mod = LinearModel(lambda z: A @ z, adjoint=lambda y: A.T @ y, range_geometry=rgeo, domain_geometry=dgeo)
                elif mk == "jacobian":
                    mod = Model(F, rgeo, dgeo, jacobian=J)
                elif mk == "direction-jacobian":
                    mod = Model(F, rgeo, dgeo, gradient=lambda direction, wrt: direction @ J(wrt))
                elif mk == "no-gradient":
                    mod = Model(F, rgeo, dgeo)
                else:
                    from cuqi.pde import SteadyStateLinearPDE
                    # a "PDE" whose solve is exact: I u = F(p); observation = u
                    pde = SteadyStateLinearPDE(lambda p: (np.eye(m), F(p)))
                    if mk == "pde-jacobian":
                        pde.jacobian_wrt_parameter = lambda p: J(p)
                    elif mk == "pde-gradient":
                        pde.gradient_wrt_parameter = lambda direction, wrt: direction @ J(wrt)
                    mod = PDEModel(pde, range_geometry=rgeo, domain_geometry=dgeo)
        except Exception as e:  # noqa
            ctx.note(f"model constructor refused {desc}: {e!r}"[:160]); continue
        # --- data distribution
        logn = dform.startswith("lognormal")
        if dform.endswith("scalar"):
            M = np.array([[rng.choice([0.5, 1.0, 2.0, 4.0])]])
        elif dform.endswith("vector"):
            M = np.array([[rng.choice([0.5, 1.0, 2.0, 4.0]) for _ in range(m)]]) if m > 1 else np.array([[2.0]])
        else:
            M = rand_spd(m) if dform.split("-")[-2] in ("cov", "prec") else rand_tri(m, True)
        form = dform.replace("lognormal-", "").rsplit("-", 1)[0]
        arg = float(M[0, 0]) if M.shape == (1, 1) else (M[0] if M.shape[0] == 1 and m > 1 else M)
        try:
            with quiet():
                ydist = D.Lognormal(mod, arg) if logn else D.Gaussian(mod, **{form: arg})
        except Exception as e:  # noqa
            ctx.note(f"data distribution refused {desc}: {e!r}"[:160]); continue
        # precision the model side uses
        if form == "cov":
            Pm = np.eye(m) / M[0, 0] if M.shape == (1, 1) else (np.diag(1 / M[0]) if M.shape[0] == 1 and m > 1 else None)
        elif form == "prec":
            Pm = np.eye(m) * M[0, 0] if M.shape == (1, 1) else (np.diag(M[0]) if M.shape[0] == 1 and m > 1 else M)
        else:
            Pm = None
        data = np.array([dy(rng, 0.5, 4, 4) for _ in range(m)]) if logn else np.array([dy(rng, -3, 3) for _ in range(m)])
        xs = np.array([dy(rng, 0.5, 2.5, 4) for _ in range(n)]) if dg.startswith("Mapped") else np.array([dy(rng, -2, 2, 4) for _ in range(n)])
        with quiet():
            lik = ydist.to_likelihood(data)
            if fd:
                lik.enable_FD(1e-7)
        parts = [lik]
        # --- prior / second likelihood
        target = lik
        try:
            with quiet():
                if prior == "gaussian":
                    pr = D.Gaussian(np.array([dy(rng, -1, 1) for _ in range(n)]), rng.choice([0.5, 1.0, 2.0]), geometry=dgeo)
                elif prior == "cauchy":
                    pr = D.Cauchy(np.array([dy(rng, -1, 1) for _ in range(n)]), rng.choice([0.5, 1.0, 2.0]), geometry=dgeo)
                elif prior == "gmrf" and n > 1:
                    pr = D.GMRF(np.array([dy(rng, -1, 1) for _ in range(n)]), rng.choice([0.5, 1.0, 2.0]), geometry=dgeo)
                elif prior == "two-likelihoods":
                    pr = None
                else:
                    pr = None
                if pr is not None:
                    target = D.Posterior(lik, pr); parts.append(pr)
                elif prior == "two-likelihoods":
                    xx = D.Gaussian(np.zeros(n), 2.0, geometry=dgeo, name="x")
                    y1 = type(ydist)(mod(xx), arg, name="y1") if logn else D.Gaussian(mod(xx), **{form: arg}, name="y1")
                    A2 = np.array([[rng.randint(-2, 2) for _ in range(n)]], dtype=float)
                    mod2 = LinearModel(A2, domain_geometry=dgeo)
                    y2 = D.Gaussian(mod2(xx), 0.5, name="y2")
                    d2 = np.array([dy(rng, -2, 2)])
                    target = D.JointDistribution(xx, y1, y2)(y1=data, y2=d2)
                    if fd:
                        for dens in target._densities:
                            dens.enable_FD(1e-7)
                    parts = None
        except Exception as e:  # noqa
            ctx.note(f"posterior constructor refused {desc}: {e!r}"[:160]); continue
        st, exc, val = classify(lambda: target.gradient(xs), n)
        bump(f"lik:{mk}:{st}")
        if st == "nan":
            with quiet():
                try:
                    l0 = float(target.logd(xs))
                except Exception:  # noqa
                    l0 = 0.0
            if not math.isfinite(l0):
                ctx.note(f"likelihood logd underflows at {desc}; case skipped"); continue
        # --- expected status from the guards (model side: decision rules of Model._check_gradient_can_be_computed + Gaussian._gradient)
        has_grad = mk not in ("no-gradient", "pde-none")
        dom_ok = GKIND[dg] in ("id", "nonid-grad")
        rng_ok = GKIND[rgk] == "id"
        prec_ok = (Pm is not None or form in ("cov", "sqrtcov")) and not (form == "prec" and M.shape[0] == 1 and m > 1) and not (form == "prec" and M.shape == (1, 1) and m > 1)
        if logn:
            prec_ok = True   # Lognormal(mean, cov): the inner Gaussian is built from cov
        pk = prior if (prior in ("gaussian", "cauchy", "two-likelihoods") or (prior == "gmrf" and n > 1)) else "none"
        pk = "twolik" if pk == "two-likelihoods" else pk
        exp = POST[(int(has_grad), GKIND[dg], int(rng_ok), int(prec_ok), int(fd), pk, int(n > 1))]
        exp = "value" if exp == "value-fd" else exp
        if fd and (rgk != "default" or dg in ("Step", "KL")):
            exp = None    # FD goes through forward()/par2fun of the geometries, whose own refusals are not modelled
        key = f"lik:{dform}:{mk}:{GKIND[dg]}:{prior}:{'fd' if fd else 'closed'}"
        if exp is not None and st != exp:
            ctx.disagree(key + ":status", desc, exp, f"{st}({exc})", "status differs from the guards' decision")
            if st == "value":
                oracle_value(ctx, key + ":status", desc, target.logd, val, xs, tol=(2e-4 if fd else ORTOL), in_support=True)
            elif st in ("none", "not-vector"):
                ctx.fail(key + ":status", desc, "vector or raise", st, "neither a gradient vector nor a refusal")
            continue
        if st in ("none", "not-vector"):
            ctx.fail(key + ":status", desc, "vector or raise", st, "neither a gradient vector nor a refusal")
            continue
        if st != "value":
            continue
        # positional vs keyword passing of the evaluation point: the same vector (or a refusal)
        try:
            pname = target.get_parameter_names()[0]
            stk, exck, valk = classify(lambda: target.gradient(**{pname: xs}), n)
            if stk != "raise" and (stk != "value" or not cmp_vec(val.tolist(), valk.tolist(), 1e-12)):
                ctx.disagree(key + ":keyword", desc, val.tolist(), f"{stk}: {None if valk is None else valk.tolist()}", "keyword call differs from positional call")
                ctx.fail(key + ":keyword", desc, val.tolist(), f"{stk}: {None if valk is None else valk.tolist()}",
                         "gradient(x) and gradient(<name>=x) differ")
        except Exception:  # noqa
            pass
        # --- model value (closed form only; FD is covered by the oracle)
        if not fd and parts is not None:
            z = dgeo.par2fun(xs) if hasattr(dgeo, "par2fun") else xs
            z = np.asarray(z, dtype=float).ravel()
            Fz = F(z); Jz = np.atleast_2d(J(z))
            dev = (np.log(data) if logn else data) - Fz
            with quiet():
                Pimpl = np.asarray(ydist._normal.prec if logn else ydist.prec, dtype=float)
            Puse = Pm if Pm is not None else Pimpl      # inverse of a dense covariance: leaf datum from the implementation (checked below)
            if Pm is None:
                C = M @ M.T if form == "sqrtcov" else M
                if M.shape == (1, 1):
                    C = np.eye(m) * (M[0, 0] ** 2 if form == "sqrtcov" else M[0, 0])
                elif M.shape[0] == 1 and m > 1:
                    C = np.diag(M[0] ** 2 if form == "sqrtcov" else M[0])
                if not np.allclose(Pimpl @ C, np.eye(m), atol=1e-9):
                    ctx.disagree(key, desc, "prec @ cov == I", "differs", "the precision used by the gradient is not the inverse of the covariance")
            Gm = "_" if GKIND[dg] == "id" else qm(np.diag(2 * xs))
            pending.append((f"lik {qv(dev)} {qm(Jz)} {qm(Puse)} {Gm}", key, desc, parts, xs, val))
        lo_b = [0.0] * n if dg.startswith("Mapped") else None
        oracle_value(ctx, key, desc, target.logd, val, xs, lo_b, None, tol=(2e-4 if fd else ORTOL), in_support=True)
    louts = ctx.lean.drive([p[0] for p in pending])
    for (line, key, desc, parts, xs, val), lo in zip(pending, louts):
        mg = np.array(decv(lo.split()[1]))
        total = mg.copy()
        with quiet():
            for pr_ in parts[1:]:
                total = total + np.asarray(pr_.gradient(xs), dtype=float)   # prior part: checked on its own in sections 1-4
        if not cmp_vec(total.tolist(), val.tolist(), 1e-8):
            ctx.disagree(key, desc, total.tolist(), val.tolist(), "likelihood/posterior gradient differs from the chain-rule model")
            # the oracle already ran on this case with the same key; if it held, finish() reports a broken tie

    # ======================================================================= 6. call histories on ONE object
    # Samplers (MALA, NUTS, …) call gradient/logd/forward on the same object many times, with the point held in
    # one ndarray that is updated in place, re-created, or revisited.  The model is pure: its prediction depends
    # only on the point's CURRENT value.  After every call the returned vector must equal that prediction and the
    # derivative of the object's own logd (or of direction·forward for a bare Model) at the current value.
    HKINDS = ["model", "likelihood", "posterior", "multi", "dist"]
    HMODELS = ["jacobian", "direction-jacobian", "matrix", "fun+adjoint", "pde-jacobian", "pde-gradient", "jacobian-samebuf"]
    HGEOMS = ["default", "Continuous1D", "Mapped+grad", "Discrete"]
    OPS = ["inplace", "inplace", "fresh-equal-earlier", "different", "inplace", "logd-then-inplace", "forward-then-inplace",
           "different", "inplace", "fresh-equal-earlier", "inplace"]
    user_state = []  # (key, the user's stored array, byte snapshot): must be untouched at the end
    hist = []       # (key, desc, target_fn(logd-like), records[(op, x_copy, dir_copy, val/status)], predict_lines builder)
    hlines = []
    hmeta = []
    for k in range(30 * S):
        kind = HKINDS[k % len(HKINDS)]
        mk = HMODELS[(k // len(HKINDS)) % len(HMODELS)]
        dg = HGEOMS[(k // 3) % len(HGEOMS)]
        m = rng.choice([1, 2, 3]); n = rng.choice([2, 3, 4])
        mapped = dg.startswith("Mapped")
        desc0 = {"history": kind, "model": mk, "domain_geometry": dg, "m": m, "n": n}
        if kind == "dist":
            fam = ["gaussian", "cauchy", "gmrf"][(k // len(HKINDS)) % 3]
            desc0 = {"history": kind, "family": fam, "n": n}
            mu = np.array([dy(rng, -2, 2) for _ in range(n)])
            if fam == "gaussian":
                C = rand_spd(n)
                with quiet():
                    obj = D.Gaussian(mu, cov=C)
                Pd = np.linalg.inv(C)
                predict = lambda x, d_, mu=mu, Pd=Pd: -(Pd @ (x - mu))
                lean_line = lambda x, d_, mu=mu, C=C: (f"gauss cov {qv(x)} {qv(mu)} {qm(C)}", 2)
            elif fam == "cauchy":
                sc = rng.choice([0.5, 1.0, 2.0])
                with quiet():
                    obj = D.Cauchy(mu, sc)
                predict = lambda x, d_, mu=mu, sc=sc: -2 * (x - mu) / (sc ** 2 * (1 + ((x - mu) / sc) ** 2))
                lean_line = lambda x, d_, mu=mu, sc=sc: (f"iid cauchy {qv(x)} {qv(mu)} {q(sc)} _", 2)
            else:
                pr = rng.choice([0.5, 1.0, 2.0])
                with quiet():
                    obj = D.GMRF(mu, pr)
                    Pop = np.asarray(obj._prec_op.get_matrix().todense())
                predict = lambda x, d_, mu=mu, pr=pr, Pop=Pop: -(pr * Pop) @ (x - mu)
                lean_line = lambda x, d_, mu=mu, pr=pr, n=n: (f"gmrf 1 1 zero {n} {q(pr)} {qv(x)} {qv(mu)}", 2)
            call = lambda x, d_, obj=obj: obj.gradient(x)
            scalar = lambda x, d_, obj=obj: float(obj.logd(x))
            side_logd = lambda x, obj=obj: obj.logd(x)
            side_fwd = side_logd
            extra = lambda x: np.zeros(len(x))
            mk = fam; mapped = False; dgk = "id"
        else:
            dgeo = geom(dg, n); dgk = GKIND[dg]
            F, J, lin, A = rand_forward(m, n)
            if mk in ("matrix", "fun+adjoint"):
                F, J = (lambda z, A=A: A @ z), (lambda z, A=A: A)
            elif lin:   # make sure the Jacobian really depends on the point
                Bq = np.array([[rng.choice([1, -1, 0.5]) for _ in range(n)] for _ in range(m)], dtype=float)
                F, J = (lambda z, A=A, Bq=Bq: A @ z + Bq @ (z * z)), (lambda z, A=A, Bq=Bq: A + 2 * Bq * z[None, :])
            try:
                with quiet():
                    if mk == "matrix":
                        mod = LinearModel(A, domain_geometry=dgeo)
                    elif mk == "fun+adjoint":
                        mod = LinearModel(lambda z, A=A: A @ z, adjoint=lambda y, A=A: A.T @ y, range_geometry=m, domain_geometry=dgeo)
                    elif mk == "jacobian":
                        mod = Model(F, m, dgeo, jacobian=J)
                    elif mk == "direction-jacobian":
                        mod = Model(F, m, dgeo, gradient=lambda direction, wrt, J=J: direction @ J(wrt))
                    elif mk == "jacobian-samebuf":
                        # user callables that return THE SAME array object on every call (persistent buffers)
                        bufF = np.zeros(m); bufJ = np.zeros((m, n))
                        def Fb(z, F=F, bufF=bufF):
                            bufF[:] = F(z); return bufF
                        def Jb(z, J=J, bufJ=bufJ):
                            bufJ[:] = J(z); return bufJ
                        mod = Model(Fb, m, dgeo, jacobian=Jb)
                    else:
                        from cuqi.pde import SteadyStateLinearPDE
                        pde = SteadyStateLinearPDE(lambda p, F=F, m=m: (np.eye(m), F(p)))
                        if mk == "pde-jacobian":
                            pde.jacobian_wrt_parameter = lambda p, J=J: J(p)
                        else:
                            pde.gradient_wrt_parameter = lambda direction, wrt, J=J: direction @ J(wrt)
                        mod = PDEModel(pde, range_geometry=m, domain_geometry=dgeo)
            except Exception as e:  # noqa
                ctx.note(f"history: model constructor refused {desc0}: {e!r}"[:160]); continue
            zmap = (lambda x: x ** 2) if mapped else (lambda x: x)
            gmap = (lambda x: 2 * x) if mapped else (lambda x: np.ones_like(x))
            vjp_ = lambda x, dirv, J=J, zmap=zmap, gmap=gmap: gmap(x) * (np.atleast_2d(J(zmap(x))).T @ dirv)
            Gq = (lambda x: qm(np.diag(2 * x))) if mapped else (lambda x: "_")
            extra = lambda x: np.zeros(len(x))
            if kind == "model":
                predict = lambda x, d_, vjp_=vjp_: vjp_(x, d_)
                lean_line = lambda x, d_, J=J, zmap=zmap, Gq=Gq, m=m: (
                    f"lik {qv(d_)} {qm(np.atleast_2d(J(zmap(x))))} {qm(np.eye(m))} {Gq(x)}", 1)
                call = lambda x, d_, mod=mod: mod.gradient(d_, x)
                scalar = lambda x, d_, mod=mod: float(np.dot(d_, np.asarray(mod.forward(x), dtype=float).ravel()))
                side_logd = lambda x, mod=mod: mod.forward(x)
                side_fwd = side_logd
            else:
                cv = np.array([rng.choice([0.5, 1.0, 2.0]) for _ in range(m)]) if m > 1 else np.array([2.0])
                data = np.array([dy(rng, -3, 3) for _ in range(m)])
                with quiet():
                    ydist = D.Gaussian(mod, cov=(cv if m > 1 else float(cv[0])))
                    lik = ydist.to_likelihood(data)
                lpred = lambda x, d_, F=F, zmap=zmap, vjp_=vjp_, data=data, cv=cv: vjp_(x, (data - F(zmap(x))) / cv)
                lean_line = lambda x, d_, F=F, J=J, zmap=zmap, Gq=Gq, data=data, cv=cv: (
                    f"lik {qv(data - F(zmap(x)))} {qm(np.atleast_2d(J(zmap(x))))} {qm(np.diag(1.0 / cv))} {Gq(x)}", 1)
                # prior: built-in Gaussian, or a USER density whose gradient callback returns a STORED array
                # (the same constant array object every call / a persistent buffer it refills): user state that the
                # library must neither modify nor alias in what it returns
                up = (k // len(HKINDS)) % 3 if kind in ("posterior", "multi") else 0
                if up == 1:
                    cst = np.array([dy(rng, -3, 3) for _ in range(n)]); cref = cst.copy()
                    uprior = lambda: D.UserDefinedDistribution(dim=n, logpdf_func=lambda x, cref=cref: float(cref @ x),
                                                               gradient_func=lambda x, cst=cst: cst, name="x")
                    pgrad_ = lambda x, cref=cref: cref.copy()
                    user_state.append((f"history:{kind}:user-constant-array", cst, cst.tobytes()))
                elif up == 2:
                    aq = rng.choice([0.5, 1.0, 2.0]); ubuf = np.zeros(n)
                    def ugrad(x, aq=aq, ubuf=ubuf):
                        ubuf[:] = -aq * np.asarray(x, dtype=float); return ubuf
                    uprior = lambda: D.UserDefinedDistribution(dim=n, logpdf_func=lambda x, aq=aq: -0.5 * aq * float(np.dot(x, x)),
                                                               gradient_func=ugrad, name="x")
                    pgrad_ = lambda x, aq=aq: -aq * x
                if up:
                    desc0 = {**desc0, "prior": "user-constant-array" if up == 1 else "user-buffer"}
                    mk = mk + "+userprior"
                if kind == "likelihood":
                    obj = lik; predict = lpred
                elif kind == "posterior":
                    pm_ = np.array([dy(rng, -1, 1) for _ in range(n)]); pc = rng.choice([0.5, 1.0, 2.0])
                    if not up:
                        pgrad_ = lambda x, pm_=pm_, pc=pc: -(x - pm_) / pc
                    with quiet():
                        obj = D.Posterior(lik, uprior() if up else D.Gaussian(pm_, pc, geometry=dgeo))
                    predict = lambda x, d_, lpred=lpred, pgrad_=pgrad_: lpred(x, d_) + pgrad_(x)
                    extra = lambda x, pgrad_=pgrad_: pgrad_(x)
                else:
                    A2 = np.array([[rng.randint(-2, 2) for _ in range(n)]], dtype=float); d2 = np.array([dy(rng, -2, 2)])
                    if not up:
                        pgrad_ = lambda x: -x / 2.0
                    with quiet():
                        xx = uprior() if up else D.Gaussian(np.zeros(n), 2.0, geometry=dgeo, name="x")
                        y1 = D.Gaussian(mod(xx), cov=(cv if m > 1 else float(cv[0])), name="y1")
                        y2 = D.Gaussian(LinearModel(A2, domain_geometry=dgeo)(xx), 0.5, name="y2")
                        obj = D.JointDistribution(xx, y1, y2)(y1=data, y2=d2)
                    predict = lambda x, d_, lpred=lpred, A2=A2, d2=d2, zmap=zmap, gmap=gmap, pgrad_=pgrad_: (
                        lpred(x, d_) + pgrad_(x) + gmap(x) * (A2.T @ ((d2 - A2 @ zmap(x)) / 0.5)))
                    extra = lambda x, A2=A2, d2=d2, zmap=zmap, gmap=gmap, pgrad_=pgrad_: pgrad_(x) + gmap(x) * (A2.T @ ((d2 - A2 @ zmap(x)) / 0.5))
                call = lambda x, d_, obj=obj: obj.gradient(x)
                scalar = lambda x, d_, obj=obj: float(obj.logd(x))
                side_logd = lambda x, obj=obj: obj.logd(x)
                side_fwd = lambda x, mod=mod: mod.forward(x)
        # ---- the scripted history on ONE point array
        x = np.array([dy(rng, 0.5, 2.0, 4) for _ in range(n)]) if mapped else np.array([dy(rng, -2, 2, 4) for _ in range(n)])
        dirv = np.array([dy(rng, -2, 2) for _ in range(m)]) if kind == "model" else None
        visited = []
        start = rng.randrange(len(OPS))
        for t in range(9):
            op = "first" if t == 0 else OPS[(start + t) % len(OPS)]
            step = np.array([rng.choice([0.25, 0.5, 0.75, 1.0]) for _ in range(n)]) * (1 if mapped else rng.choice([-1, 1]))
            try:
                with quiet():
                    if op in ("logd-then-inplace",):
                        side_logd(x)
                    if op in ("forward-then-inplace",):
                        side_fwd(x)
                    if op in ("inplace", "logd-then-inplace", "forward-then-inplace"):
                        x += step                                   # the SAME ndarray object, new value
                    elif op == "fresh-equal-earlier" and visited:
                        x = visited[rng.randrange(len(visited))].copy()      # a new object equal to an earlier point
                    elif op == "different":
                        x = x + step                                # a new object, new value
                    if kind == "model" and t % 2 == 1:
                        dirv = np.array([dy(rng, -2, 2) for _ in range(m)])  # another direction at the same/next point
            except Exception as e:  # noqa
                ctx.note(f"history side call raised at {desc0}: {e!r}"[:160])
            xv = x.copy(); dv = None if dirv is None else dirv.copy()
            st, exc, val = classify(lambda: call(x, dirv), n)
            desc = {**desc0, "step": t, "op": op, "x": xv.tolist(), "direction": None if dv is None else dv.tolist()}
            ctx.case(f"history-{kind}", desc)
            bump(f"history:{kind}:{st}")
            key = f"history:{kind}:{mk}:{dgk}:{op}"
            if not np.array_equal(x, xv):
                ctx.fail(key + ":mutated-input", desc, xv.tolist(), x.tolist(), "gradient modified the caller's point array")
            visited.append(xv)
            if st != "value":
                ctx.disagree(key + ":status", desc, "value", f"{st}({exc})", "status differs in a call history")
                if st in ("none", "not-vector", "nan"):
                    ctx.fail(key + ":status", desc, "gradient vector", st, "no gradient vector in a call history")
                continue
            pred = np.asarray(predict(xv, dv), dtype=float).ravel()
            if not cmp_vec(pred.tolist(), val.tolist(), 1e-8):
                ctx.disagree(key, desc, pred.tolist(), val.tolist(),
                             "gradient differs from the (pure) model at the point's current value")
            ln, tokidx = lean_line(xv, dv)
            hlines.append(ln); hmeta.append((key, desc, tokidx, extra(xv), val.copy()))
            hist.append((key, desc, scalar, xv, dv, val.copy(), mapped))
            if kind in ("posterior", "multi", "likelihood") and val.flags.writeable:
                # the caller may do what it likes with the returned array: later calls must not depend on it
                val += 1000.0
                if RETAINED and RETAINED[-1][1] is val:
                    RETAINED[-1] = (RETAINED[-1][0], val, val.tobytes())
    for ukey, arr, snap in user_state:
        if arr.tobytes() != snap:
            ctx.fail(ukey + ":user-state-modified", {"history": ukey}, "the array stored by the user's gradient callback is untouched",
                     arr.tolist(), "a gradient call modified an array owned by a user callback (accumulated into it in place)")
    # oracle after the histories (fresh arrays; the objects' logd/forward at the recorded values)
    for key, desc, scalar, xv, dv, val, mapped in hist:
        oracle_value(ctx, key, desc, (lambda z, scalar=scalar, dv=dv: scalar(z, dv)), val, xv,
                     [0.0] * len(xv) if mapped else None, None, in_support=True)
    # the executable Lean model on the recorded current values (one batch)
    for (key, desc, tokidx, ex, val), out in zip(hmeta, ctx.lean.drive(hlines)):
        toks = out.split()
        if toks[0] != "value":
            ctx.disagree(key, desc, out[:80], val.tolist(), "Lean model refuses where the implementation returned a vector"); continue
        mg = np.array(decv(toks[tokidx])) + ex
        if not cmp_vec(mg.tolist(), val.tolist(), 1e-8):
            ctx.disagree(key, desc, mg.tolist(), val.tolist(), "gradient differs from the Lean model at the point's current value")

    # ======================================================================= 7. expansion geometries (subclasses of Continuous1D) as DOMAIN / as RANGE
    # StepExpansion / KLExpansion / KLExpansion_Full / CustomKL subclass Continuous1D but have a non-identity par2fun
    # and no `gradient`: the closed-form gradient must be REFUSED (`type(geom) in identity list`, not isinstance).
    # The forward map acts on the function values (dimension p = len(grid)), the parameters have dimension n < p.
    # If a vector is returned anyway it must be the derivative of the same object's logd (Richardson oracle).
    def expansion(kind, n, p):
        grid = np.linspace(0, 1, p)
        if kind == "Step":
            return G.StepExpansion(grid, n_steps=n)
        if kind == "KL":
            return G.KLExpansion(grid, num_modes=n)
        if kind == "KLFull":
            return G.KLExpansion_Full(grid)
        return G.CustomKL(grid, cov_func=lambda a, b: np.exp(-abs(a - b)), trunc_term=n)
    EMODELS = ["matrix", "jacobian", "direction-jacobian", "fun+adjoint"]
    ETARGETS = ["likelihood", "posterior", "likelihood", "multi"]
    ecases = []
    for k in range(36 * S):
        side = "domain" if k % 3 else "range"
        gk = (["Step", "KL", "KLFull", "CustomKL"] if side == "domain" else ["Step", "KL"])[(k // 3) % (4 if side == "domain" else 2)]
        mk = EMODELS[(k // 2) % len(EMODELS)]
        tgt = ETARGETS[k % len(ETARGETS)]
        fd = (k % 9 == 4)
        ecases.append((side, gk, mk, tgt, fd))
    for side, gk, mk, tgt, fd in ecases:
        n = rng.choice([2, 3]); p = n * rng.choice([2, 3]); m = rng.choice([1, 2, 3])
        desc = {"expansion": gk, "side": side, "model": mk, "target": tgt, "fd": fd, "n_par": n, "n_fun": p, "m": m}
        ctx.case(f"expansion-{side}", desc)
        try:
            with quiet():
                eg = expansion(gk, n, p)
                if side == "domain":
                    din, dout = p, m; dgeo, rgeo = eg, m; npar = eg.par_dim; ndata = m
                else:
                    din, dout = n, p; dgeo, rgeo = n, eg; npar = n; ndata = eg.par_dim
                F, J, lin, A = rand_forward(dout, din)
                if mk in ("matrix", "fun+adjoint"):
                    F, J = (lambda z, A=A: A @ z), (lambda z, A=A: A)
                if mk == "matrix":
                    mod = LinearModel(A, range_geometry=rgeo, domain_geometry=dgeo)
                elif mk == "fun+adjoint":
                    mod = LinearModel(lambda z, A=A: A @ z, adjoint=lambda y, A=A: A.T @ y, range_geometry=rgeo, domain_geometry=dgeo)
                elif mk == "jacobian":
                    mod = Model(F, rgeo, dgeo, jacobian=J)
                else:
                    mod = Model(F, rgeo, dgeo, gradient=lambda direction, wrt, J=J: direction @ J(wrt))
                data = np.array([dy(rng, -2, 2) for _ in range(ndata)])
                cv = rng.choice([0.5, 1.0, 2.0])
                pgeo = mod.domain_geometry
                if tgt == "multi":
                    xx = D.Gaussian(np.zeros(npar), 2.0, geometry=pgeo, name="x")
                    y1 = D.Gaussian(mod(xx), cv, name="y1")
                    A2 = np.array([[rng.randint(-2, 2) for _ in range(din)]], dtype=float)
                    y2 = D.Gaussian(LinearModel(A2, domain_geometry=pgeo)(xx), 0.5, name="y2")
                    target = D.JointDistribution(xx, y1, y2)(y1=data, y2=np.array([dy(rng, -2, 2)]))
                    if fd:
                        for dens in target._densities:
                            dens.enable_FD(1e-7)
                else:
                    lik = D.Gaussian(mod, cv).to_likelihood(data)
                    if fd:
                        lik.enable_FD(1e-7)
                    target = lik if tgt == "likelihood" else D.Posterior(lik, D.Gaussian(np.zeros(npar), 2.0, geometry=pgeo))
                xs = np.array([dy(rng, -1.5, 1.5, 4) for _ in range(npar)])
                l0 = float(np.asarray(target.logd(xs)).ravel()[0])
        except Exception as e:  # noqa
            ctx.note(f"expansion case refused at construction/logd {desc}: {e!r}"[:200]); continue
        st, exc, val = classify(lambda: target.gradient(xs), npar)
        bump(f"expansion:{side}:{gk}:{st}")
        key = f"expansion:{side}:{gk}:{mk}:{tgt}:{'fd' if fd else 'closed'}"
        # decision table: domain expansion = non-identity geometry without gradient; range expansion = range not identity
        pk = {"likelihood": "none", "posterior": "gaussian", "multi": "twolik"}[tgt]
        exp = POST[(1, "nonid" if side == "domain" else "id", 1 if side == "domain" else 0, 1, int(fd), pk, 1)]
        exp = "value" if exp == "value-fd" else exp
        if fd and exp == "value" and st == "raise":
            ctx.note(f"FD path refused inside the geometry at {desc}: {exc}"); continue   # fun2par/par2fun internals: not modelled
        if st != exp:
            ctx.disagree(key, desc, exp, f"{st}({exc})", "status differs from the decision table (expansion geometry must be refused)")
        if st == "value":
            f_logd = lambda z, target=target: float(np.asarray(target.logd(z)).ravel()[0])
            oracle_value(ctx, key, desc, f_logd, val, xs, tol=(2e-4 if fd else ORTOL), in_support=True)
        elif st in ("none", "not-vector", "nan"):
            ctx.fail(key, desc, "refusal (or the derivative)", st, "neither a gradient vector nor a refusal")

    # ======================================================================= 8. Image2D DOMAIN geometries on the model path
    # order 'C' and 'F', square and non-square images.  The forward map acts on the IMAGE (function values); the
    # gradient callable returns either an image-shaped array (function values: Model.gradient must map it back with
    # the geometry's fun2par, i.e. flatten by `order`) or a flat array already in parameter order.
    # Lean model: `likimg` = chain rule with G = the permutation matrix of Image2D.par2fun (`image2dJac`).
    SHAPES = [(2, 3), (3, 2), (2, 4), (2, 2), (3, 3), (4, 2)]
    IKINDS = ["gradient-image", "gradient-flat", "jacobian-flat", "adjoint-image", "adjoint-flat", "matrix-flat"]
    ITARGETS = ["model", "likelihood", "posterior"]
    ilines, imeta, iorc = [], [], []
    for k in range(36 * S):
        h, w = SHAPES[k % len(SHAPES)]
        order = "F" if (k // 2) % 2 == 0 else "C"
        ik = IKINDS[(k // 3) % len(IKINDS)]
        tgt = ITARGETS[(k // 4) % len(ITARGETS)]
        n = h * w; m = rng.choice([1, 2, 3])
        desc = {"image2d": [h, w], "order": order, "model": ik, "target": tgt, "m": m}
        ctx.case("image2d-domain", desc)
        key = f"image2d:{order}:{'square' if h == w else 'nonsquare'}:{ik}:{tgt}"
        Fp, Jp, lin, A = rand_forward(m, n)               # on the PARAMETER vector x; image Z = x.reshape((h,w), order)
        if ik.startswith(("adjoint", "matrix")):
            Fp, Jp = (lambda x, A=A: A @ x), (lambda x, A=A: A)
        flat = lambda Z, order=order: np.asarray(Z).ravel(order=order)          # = Image2D.fun2par
        img = lambda v, h=h, w=w, order=order: np.asarray(v).reshape((h, w), order=order)
        fwd = lambda Z, Fp=Fp, flat=flat: Fp(flat(Z))
        try:
            with quiet():
                dgeo = G.Image2D((h, w), order=order)
                if ik == "gradient-image":
                    mod = Model(fwd, m, dgeo, gradient=lambda direction, wrt, Jp=Jp, flat=flat, img=img: img(direction @ Jp(flat(wrt))))
                elif ik == "gradient-flat":
                    mod = Model(fwd, m, dgeo, gradient=lambda direction, wrt, Jp=Jp, flat=flat: direction @ Jp(flat(wrt)))
                elif ik == "jacobian-flat":
                    mod = Model(fwd, m, dgeo, jacobian=lambda wrt, Jp=Jp, flat=flat: Jp(flat(wrt)))
                elif ik == "adjoint-image":
                    mod = LinearModel(fwd, adjoint=lambda y, A=A, img=img: img(A.T @ y), range_geometry=m, domain_geometry=dgeo)
                elif ik == "adjoint-flat":
                    mod = LinearModel(fwd, adjoint=lambda y, A=A: A.T @ y, range_geometry=m, domain_geometry=dgeo)
                else:
                    # a matrix acts on the flat parameter vector only if par2fun is bypassed: give the matrix a function face
                    mod = LinearModel(lambda Z, A=A, flat=flat: A @ flat(Z), adjoint=lambda y, A=A: A.T @ y, range_geometry=m, domain_geometry=dgeo)
                xs = np.array([dy(rng, -2, 2, 4) for _ in range(n)])
                cv = np.array([rng.choice([0.5, 1.0, 2.0]) for _ in range(m)])
                data = np.array([dy(rng, -3, 3) for _ in range(m)])
                dirv = np.array([dy(rng, -2, 2) for _ in range(m)])
                extra = np.zeros(n)
                if tgt == "model":
                    call = lambda: mod.gradient(dirv, xs)
                    scalar = lambda z: float(np.dot(dirv, np.asarray(mod.forward(z), dtype=float).ravel()))
                    dev, Pm_ = dirv, np.eye(m)
                else:
                    lik = D.Gaussian(mod, cov=(cv if m > 1 else float(cv[0]))).to_likelihood(data)
                    dev, Pm_ = data - Fp(xs), np.diag(1.0 / cv)
                    if tgt == "likelihood":
                        obj = lik
                    else:
                        pm_ = np.array([dy(rng, -1, 1) for _ in range(n)]); pc = rng.choice([0.5, 1.0, 2.0])
                        obj = D.Posterior(lik, D.Gaussian(pm_, pc, geometry=dgeo))
                        extra = -(xs - pm_) / pc
                    call = lambda obj=obj: obj.gradient(xs)
                    scalar = lambda z, obj=obj: float(np.asarray(obj.logd(z)).ravel()[0])
        except Exception as e:  # noqa
            ctx.note(f"image2d case refused at construction {desc}: {e!r}"[:200]); continue
        st, exc, val = classify(call, n)
        bump(f"image2d:{order}:{st}")
        if st != "value":
            ctx.disagree(key, desc, "value", f"{st}({exc})", "Image2D is an identity geometry: the gradient must be returned")
            if st in ("none", "not-vector", "nan"):
                ctx.fail(key, desc, "gradient vector", st, "no gradient vector for an Image2D domain")
            continue
        # Jacobian w.r.t. the pixels listed row-major: column l=(r*w+c) is the parameter column idx(r,c)
        idx = [(c * h + r) if order == "F" else (r * w + c) for r in range(h) for c in range(w)]
        Jfun = np.atleast_2d(Jp(xs))[:, idx]
        ilines.append(f"likimg {order} {h} {w} {qv(dev)} {qm(Jfun)} {qm(Pm_)}")
        imeta.append((key, desc, extra, val))
        oracle_value(ctx, key, desc, scalar, val, xs, in_support=True)
    for (key, desc, extra, val), out in zip(imeta, ctx.lean.drive(ilines)):
        toks = out.split()
        mg = (np.array(decv(toks[1])) + extra) if toks[0] == "value" else None
        if mg is None or not cmp_vec(mg.tolist(), val.tolist(), 1e-8):
            ctx.disagree(key, desc, out[:120] if mg is None else mg.tolist(), val.tolist(),
                         "gradient differs from the model (fun2par of the function-space gradient by the geometry's order)")

    # ======================================================================= 9. Gaussians on both sides of config.MIN_DIM_SPARSE
    # For dim > MIN_DIM_SPARSE dense matrices go through eigendecompositions with a truncated (pseudo-inverse)
    # spectrum.  Whatever the branch, the log-density is -½‖sqrtprec (x-mean)‖² + const, so the gradient must be
    # -(sqrtprecᵀ sqrtprec)(x-mean) (theorems normSq_eq_quad_gram + gauss_grad_eq_deriv): the precision used by
    # `_gradient` has to be the one the density uses.  P = sqrtprecᵀ sqrtprec is read from the object (leaf datum),
    # the Lean model evaluates -(P (x-mean)) / Jᵀ P (d - A x) exactly, the oracle differentiates the object's logd.
    MDS = int(cuqi.config.MIN_DIM_SPARSE)
    def spectrum_cov(kind, n, rs):
        Q, _ = np.linalg.qr(rs.randn(n, n))
        if kind == "well":
            sv = np.linspace(1.0, 2.0, n)
        elif kind == "ill":                      # a few eigenvalues far below the truncation threshold (1e6*eps*max)
            sv = np.linspace(1.0, 2.0, n); sv[:3] = 1e-12
        elif kind == "null":                     # exactly rank deficient
            sv = np.linspace(1.0, 2.0, n); sv[:2] = 0.0
        else:                                    # smooth kernel: rapidly decaying spectrum
            t = np.linspace(0, 1, n)
            C = np.exp(-(t[:, None] - t[None, :]) ** 2 / (2 * 0.2 ** 2))
            return 0.5 * (C + C.T), None
        C = (Q * sv) @ Q.T
        return 0.5 * (C + C.T), (Q, sv)
    def norm_oracle(key, desc, logd, g, x, rel=1e-4):
        """norm-wise Richardson oracle (the log-density is quadratic here: central differences are exact up to rounding)"""
        f = lambda z: float(np.asarray(logd(z)).ravel()[0])
        with quiet():
            l0 = f(x)
        if not math.isfinite(l0):
            ctx.note(f"logd not finite for {key}; oracle skipped"); return True
        ng, err = num_grad(f, x)
        if np.linalg.norm(ng - g) > rel * (np.linalg.norm(ng) + np.linalg.norm(g)) + 4 * np.linalg.norm(err) + 1e-9:
            ctx.fail(key, desc, [float(v) for v in ng[:8]], [float(v) for v in np.asarray(g)[:8]],
                     "returned gradient is not the derivative of the same object's log-density (first components shown)")
            return False
        return True
    bcases = []
    for k in range(14 * S):
        form = ["cov", "cov", "cov", "sqrtcov", "prec", "cov", "sqrtprec"][k % 7]
        spec = ["ill", "kernel", "well", "ill", "well", "null", "well"][k % 7]
        n = [MDS + 5, MDS + 1, MDS, MDS + 2, MDS + 3, MDS + 8, MDS + 1][k % 7] if k % 3 else MDS + 1 + (k % 4)
        if n <= MDS:
            spec = "well"                        # the small-dim dense branch inverts the covariance outright
        role = ["prior", "likelihood", "posterior"][(k // 2) % 3]
        bcases.append((form, spec, n, role, k))
    blines, bmeta = [], []
    for form, spec, n, role, k in bcases:
        rs = np.random.RandomState(ctx.seed * 1000 + k)
        desc = {"gaussian-large": form, "spectrum": spec, "n": n, "role": role, "MIN_DIM_SPARSE": MDS}
        ctx.case("gauss-large", desc)
        key = f"Gaussian-large:{form}:{spec}:{'above' if n > MDS else 'at-or-below'}-MIN_DIM_SPARSE:{role}"
        C, qs = spectrum_cov(spec, n, rs)
        if form == "cov":
            arg = C
        elif form == "prec":
            arg = C                                      # a well-conditioned SPD matrix used as precision
        elif form == "sqrtcov":
            Q, sv = qs
            arg = Q * np.sqrt(sv)                        # R with R Rᵀ = C (non-symmetric square root)
        else:
            arg = np.linalg.cholesky(C).T
        mean = np.round(rs.randn(n) * 4) / 4
        try:
            with quiet():
                if role == "prior":
                    dist = D.Gaussian(mean, **{form: arg}); target = dist; npar = n
                    xs = mean + np.round(rs.randn(n) * 4) / 4
                else:
                    A = np.round(rs.randn(n, 4) * 2) / 2
                    mod = LinearModel(A)
                    dist = D.Gaussian(mod, **{form: arg})
                    data = np.round((A @ rs.randn(4) + rs.randn(n)) * 4) / 4
                    lik = dist.to_likelihood(data); npar = 4
                    xs = np.round(rs.randn(4) * 4) / 4
                    target = lik if role == "likelihood" else D.Posterior(lik, D.Gaussian(np.zeros(4), 2.0))
                R = dist.sqrtprec
                R = np.asarray(R.todense()) if hasattr(R, "todense") else np.asarray(R)
                Plog = R.T @ R
        except Exception as e:  # noqa
            ctx.note(f"large Gaussian refused at construction {desc}: {e!r}"[:200]); continue
        st, exc, val = classify(lambda: target.gradient(xs), npar)
        bump(f"gauss-large:{form}:{spec}:{st}")
        if form == "sqrtprec":
            if st != "raise":
                ctx.disagree(key, desc, "raise", st, "sqrtprec form has no `prec`: refusal expected")
                if st == "value":
                    norm_oracle(key, desc, target.logd, val, xs)
            continue
        if st != "value":
            ctx.disagree(key, desc, "value", f"{st}({exc})", "status differs")
            if st in ("none", "not-vector", "nan"):
                ctx.fail(key, desc, "gradient vector", st, "no gradient vector")
            continue
        if role == "prior":
            blines.append(f"pgrad {qv(xs)} {qv(mean)} {qm(Plog)}"); extra = np.zeros(n)
        else:
            blines.append(f"lik {qv(data - A @ xs)} {qm(A)} {qm(Plog)} _")
            extra = np.zeros(4) if role == "likelihood" else -xs / 2.0
        bmeta.append((key, desc, extra, val))
        norm_oracle(key, desc, target.logd, val, xs)
    for (key, desc, extra, val), out in zip(bmeta, ctx.lean.drive(blines)):
        mg = np.array(decv(out.split()[1])) + extra
        if np.linalg.norm(mg - val) > 1e-7 * (1.0 + np.linalg.norm(mg)):
            ctx.disagree(key, desc, mg[:8].tolist(), val[:8].tolist(),
                         "gradient is not -(sqrtprecᵀ sqrtprec)(x-mean): `prec` is not the precision the log-density uses")

    # ======================================================================= 10. reconfiguration histories on one object
    # (a) enable_FD(eps) / enable_FD() / disable_FD() in any order, then gradient: the Lean state machine (`fdhist`)
    #     says which mode applies (closed form, or forward difference with which spacing);
    # (b) parameters re-assigned through their setters after a first gradient call: the result must be that of a
    #     fresh object with the current parameters.
    def fd_objects():
        n = 3
        mu = np.array([dy(rng, -2, 2) for _ in range(n)]); C = rand_spd(n)
        A = np.array([[rng.randint(-2, 2) for _ in range(n)] for _ in range(2)], dtype=float)
        Bq = np.array([[rng.choice([1, -1, 0.5]) for _ in range(n)] for _ in range(2)], dtype=float)
        F = lambda z: A @ z + Bq @ (z * z); J = lambda z: A + 2 * Bq * z[None, :]
        data = np.array([dy(rng, -2, 2) for _ in range(2)])
        mk_lik = lambda: D.Gaussian(Model(F, 2, n, jacobian=J), 2.0).to_likelihood(data)
        objs = {
            "gaussian": (lambda: D.Gaussian(mu, cov=C), True, False),
            "gmrf": (lambda: D.GMRF(mu, 2.0), True, False),
            "beta": (lambda: D.Beta(np.array([2.0, 3.0, 1.5]), 2.5), True, False),
            "cauchy": (lambda: D.Cauchy(mu, 2.0), True, True),            # overrides `gradient`: FD never used
            "uniform": (lambda: D.Uniform(np.array([-4.0, -4, -4]), 4.0), True, True),
            "Laplace": (lambda: D.Laplace(mu, 2.0), False, False),
            "Gamma": (lambda: D.Gamma(np.array([2.0, 3.0, 2.5]), 1.5), False, False),
            "LMRF": (lambda: D.LMRF(mu, 2.0), False, False),
            "Normal": (lambda: D.Normal(mu, 2.0), False, False),
            "likelihood": (mk_lik, True, False),
            "posterior": (lambda: D.Posterior(mk_lik(), D.Gaussian(mu, 2.0)), True, False),
            "posterior-Cauchy-prior": (lambda: D.Posterior(mk_lik(), D.Cauchy(mu, 2.0)), True, False),
        }
        return objs, n
    FDOPS = ["e:1/100", "d", "g", "e:1/64", "g", "d", "g", "e:_", "g", "e:1/100", "e:1/1000000", "g", "d", "d", "g", "e:_", "d", "g"]
    scripts = []
    objs, n_fd = fd_objects()
    for name in objs:
        for rep in range(2 * S):
            if rep == 0:
                sc = ["g", "e:1/100", "g", "d", "g", "e:_", "d", "g"]       # always contains enable -> disable -> gradient
            else:
                st0 = rng.randrange(len(FDOPS)); L = rng.randint(5, 9)
                sc = [FDOPS[(st0 + j) % len(FDOPS)] for j in range(L)] + ["g"]
            scripts.append((name, sc))
    modes = ctx.lean.drive(["fdhist " + " ".join(sc) for _, sc in scripts])
    for (name, sc), mline in zip(scripts, modes):
        mk, analytic, overrides = objs[name]
        try:
            with quiet():
                obj = mk(); fresh = mk()
        except Exception as e:  # noqa
            ctx.note(f"fd-history constructor refused {name}: {e!r}"[:160]); continue
        xs = np.array([0.5, 0.25, 0.625][:n_fd]) if name in ("beta", "Gamma") else np.array([dy(rng, -2, 2, 8) + off for _, off in zip(range(n_fd), (1 / 16, 3 / 32, 5 / 64))])
        # (distinct odd offsets: neither x_i - mean_i nor any difference x_i - x_j - (mean_i - mean_j) is zero, so the
        #  piecewise-linear Laplace / LMRF densities are differentiable at the point)
        mlist = mline.split(); gi = 0
        done = []
        for op in sc:
            done.append(op)
            if op == "d":
                with quiet():
                    obj.disable_FD()
                continue
            if op.startswith("e:"):
                with quiet():
                    if op == "e:_":
                        obj.enable_FD()
                    else:
                        obj.enable_FD(float(Fraction(op[2:])))
                continue
            mode = mlist[gi]; gi += 1
            desc = {"fd-history": name, "ops": list(done), "x": xs.tolist(), "model_mode": mode}
            ctx.case("fd-history", desc)
            key = f"fd-history:{name}:{'closed' if mode == 'closed' or overrides else 'fd'}-after-{'disable' if 'd' in done else 'enable-only' if len(done) > 1 else 'fresh'}"
            st, exc, val = classify(lambda: obj.gradient(xs), n_fd)
            bump(f"fd-history:{name}:{st}")
            f_logd = lambda z, obj=obj: float(np.asarray(obj.logd(z)).ravel()[0])
            if mode == "closed" or overrides:
                # the object itself says FD is off?
                with quiet():
                    reports_off = (obj.FD_enabled is False)
                if mode == "closed" and not reports_off:
                    ctx.disagree(key, desc, "FD_enabled False", "True", "FD flag differs from the state machine")
                if not analytic:
                    if st != "raise":
                        ctx.disagree(key, desc, "raise", f"{st}", "no analytic gradient and FD off: refusal expected")
                        if reports_off:
                            ctx.fail(key, desc, "NotImplementedError (no analytic gradient, FD_enabled is False)",
                                     f"{st}: {None if val is None else val.tolist()}",
                                     "a vector is returned although no analytic gradient exists and the finite-difference option is off")
                    continue
                if st != "value":
                    ctx.disagree(key, desc, "value", f"{st}({exc})", "closed-form gradient expected"); continue
                st_f, _, val_f = classify(lambda: fresh.gradient(xs), n_fd)
                if st_f == "value" and not cmp_vec(val_f.tolist(), val.tolist(), 1e-10):
                    ctx.disagree(key, desc, val_f.tolist(), val.tolist(), "differs from a fresh object with FD off")
                oracle_value(ctx, key, desc, f_logd, val, xs, tol=2e-6, in_support=True)
            else:
                eps = float(Fraction(mode[3:]))
                if st != "value":
                    ctx.disagree(key, desc, f"value-fd({eps})", f"{st}({exc})", "FD gradient expected")
                    ctx.fail(key, desc, "finite-difference gradient (FD enabled)", f"{st}({exc})", "with the finite-difference option switched on the call still refuses")
                    continue
                with quiet():
                    f0 = f_logd(xs)
                    fdm = np.array([(f_logd(xs + eps * np.eye(n_fd)[i]) - f0) / eps for i in range(n_fd)])   # fdGrad on the object's logd
                if not cmp_vec(fdm.tolist(), val.tolist(), 1e-6 + 1e-14 * abs(f0) / eps):
                    ctx.disagree(key, desc, fdm.tolist(), val.tolist(), f"not the forward difference with the spacing {eps} of the last enable_FD")
                oracle_value(ctx, key, desc, f_logd, val, xs, tol=max(2e-4, 100 * eps), in_support=True)
        # (b) re-assignment through setters after first use
    def reassign_cases():
        n = 3
        mu1 = np.array([dy(rng, -2, 2) for _ in range(n)]); mu2 = mu1 + np.array([0.5, -1.0, 0.25])
        C1, C2 = rand_spd(n), rand_spd(n)
        return [
            ("gaussian.mean", lambda: D.Gaussian(mu1, cov=C1), lambda o: setattr(o, "mean", mu2), lambda: D.Gaussian(mu2, cov=C1)),
            ("gaussian.cov", lambda: D.Gaussian(mu1, cov=C1), lambda o: setattr(o, "cov", C2), lambda: D.Gaussian(mu1, cov=C2)),
            ("gaussian.cov-scalar", lambda: D.Gaussian(mu1, cov=C1), lambda o: setattr(o, "cov", 0.5), lambda: D.Gaussian(mu1, cov=0.5)),
            ("gaussian.prec", lambda: D.Gaussian(mu1, prec=C1), lambda o: setattr(o, "prec", C2), lambda: D.Gaussian(mu1, prec=C2)),
            ("gaussian.sqrtcov", lambda: D.Gaussian(mu1, sqrtcov=np.diag([1.0, 2.0, 0.5])), lambda o: setattr(o, "sqrtcov", np.diag([2.0, 1.0, 4.0])), lambda: D.Gaussian(mu1, sqrtcov=np.diag([2.0, 1.0, 4.0]))),
            ("cauchy.location", lambda: D.Cauchy(mu1, 2.0), lambda o: setattr(o, "location", mu2), lambda: D.Cauchy(mu2, 2.0)),
            ("cauchy.scale", lambda: D.Cauchy(mu1, 2.0), lambda o: setattr(o, "scale", 0.5), lambda: D.Cauchy(mu1, 0.5)),
            ("gmrf.mean", lambda: D.GMRF(mu1, 2.0), lambda o: setattr(o, "mean", mu2), lambda: D.GMRF(mu2, 2.0)),
            ("gmrf.prec", lambda: D.GMRF(mu1, 2.0), lambda o: setattr(o, "prec", 0.5), lambda: D.GMRF(mu1, 0.5)),
            ("cmrf.location", lambda: D.CMRF(mu1, 2.0), lambda o: setattr(o, "location", mu2), lambda: D.CMRF(mu2, 2.0)),
            ("cmrf.scale", lambda: D.CMRF(mu1, 2.0), lambda o: setattr(o, "scale", 0.5), lambda: D.CMRF(mu1, 0.5)),
            ("lognormal.mean", lambda: D.Lognormal(mu1, 2.0), lambda o: setattr(o, "mean", mu2), lambda: D.Lognormal(mu2, 2.0)),
            ("lognormal.cov", lambda: D.Lognormal(mu1, 2.0), lambda o: setattr(o, "cov", 0.5), lambda: D.Lognormal(mu1, 0.5)),
            ("beta.alpha", lambda: D.Beta(np.array([2.0, 3.0, 1.5]), 2.5), lambda o: setattr(o, "alpha", np.array([1.5, 2.0, 4.0])), lambda: D.Beta(np.array([1.5, 2.0, 4.0]), 2.5)),
            ("invgamma.scale", lambda: D.InverseGamma(2.0, -1.0, 1.5), lambda o: setattr(o, "scale", np.array([3.0])), lambda: D.InverseGamma(2.0, -1.0, 3.0)),
            ("smoothedlaplace.beta", lambda: D.SmoothedLaplace(mu1, 2.0, 0.25), lambda o: setattr(o, "beta", 1.0), lambda: D.SmoothedLaplace(mu1, 2.0, 1.0)),
            ("smoothedlaplace.location", lambda: D.SmoothedLaplace(mu1, 2.0, 0.25), lambda o: setattr(o, "location", mu2), lambda: D.SmoothedLaplace(mu2, 2.0, 0.25)),
            ("uniform.high", lambda: D.Uniform(np.array([-4.0, -4, -4]), 4.0), lambda o: setattr(o, "high", 0.25), lambda: D.Uniform(np.array([-4.0, -4, -4]), 0.25)),
        ]
    for rep in range(S):
        for name, mk, reassign, mk_new in reassign_cases():
            fam0 = name.split(".")[0]
            xs = np.array([0.5, 0.375, 0.625]) if fam0 in ("beta", "lognormal", "invgamma", "uniform") else np.array([dy(rng, -2, 2, 8) + 0.0625 for _ in range(3)])
            desc = {"reassign": name, "x": xs.tolist()}
            ctx.case("reassign-after-use", desc)
            key = f"reassign:{name}"
            try:
                with quiet():
                    obj = mk()
                    n_ = obj.dim
                    xs_ = xs[:n_]
                    obj.gradient(xs_); obj.logd(xs_)          # first use (fills whatever is cached)
                    reassign(obj)
                    new = mk_new()
            except Exception as e:  # noqa
                ctx.note(f"reassign case refused {name}: {e!r}"[:160]); continue
            st, exc, val = classify(lambda: obj.gradient(xs_), n_)
            st_f, exc_f, val_f = classify(lambda: new.gradient(xs_), n_)
            bump(f"reassign:{st}")
            if st != st_f or (st == "value" and not cmp_vec(val_f.tolist(), val.tolist(), 1e-9)):
                ctx.disagree(key, desc, f"{st_f}: {None if val_f is None else val_f.tolist()}", f"{st}: {None if val is None else val.tolist()}",
                             "after re-assigning the parameter the gradient is not that of a fresh object with the current parameters")
            if st == "value":
                # the object's own logd after the re-assignment
                oracle_value(ctx, key, desc, lambda z, obj=obj: float(np.asarray(obj.logd(z)).ravel()[0]), val, xs_,
                             [0.0] * n_ if fam0 in ("beta", "lognormal") else None, [1.0] * n_ if fam0 == "beta" else None)
            elif st == "nan" and st_f == "nan":
                pass

    # ======================================================================= 12. integer-valued points in every dtype, inside / on / outside the support
    # The float64 array of the same numbers is the reference (its status and vector were validated in sections 1-5
    # and are re-validated here by the oracle); every other container/dtype must give the same answer or refuse:
    # in particular a NaN answer outside the support must not turn into a finite integer vector.
    def int_objects():
        n = 3
        A = np.array([[1.0, -1.0, 2.0], [0.0, 2.0, 1.0]]); dat = np.array([1.0, -2.0])
        lik = lambda: D.Gaussian(LinearModel(A), 2.0).to_likelihood(dat)
        def multi(prior):
            xx = prior
            y1 = D.Gaussian(LinearModel(A)(xx), 2.0, name="y1"); y2 = D.Gaussian(LinearModel(A[:1])(xx), 0.5, name="y2")
            return D.JointDistribution(xx, y1, y2)(y1=dat, y2=np.array([0.5]))
        return [
            ("uniform", lambda: D.Uniform(np.array([-2.0, 0.0, 1.0]), np.array([3.0, 5.0, 4.0])), [[1, 2, 3], [3, 5, 1], [-2, 0, 4], [1, 7, 3], [-3, 2, 2], [0, 0, 0]]),
            ("uniform-scalar-bounds", lambda: D.Uniform(0.0, 4.0, geometry=3), [[1, 2, 3], [0, 4, 1], [1, 5, 3], [1, 1, 1]]),
            ("beta", lambda: D.Beta(np.array([2.0, 3.0, 1.5]), 2.5), [[0, 1, 0], [1, 1, 1], [2, 0, 1]]),
            ("invgamma", lambda: D.InverseGamma(2.0, -1.0, 1.5, geometry=3), [[1, 2, 3], [0, 1, 5], [-1, 2, 3], [-2, 1, 1]]),
            ("cauchy", lambda: D.Cauchy(np.array([0.5, -1.0, 2.0]), 2.0), [[1, 2, 3], [0, 0, 0], [-3, 1, 100]]),
            ("cauchy-bad-scale", lambda: D.Cauchy(np.array([0.5, -1.0, 2.0]), np.array([1.0, 0.0, 2.0])), [[1, 2, 3]]),
            ("mhn", lambda: D.ModifiedHalfNormal(2.0, 1.0, 0.5), [[1], [3], [0], [-2]]),
            ("lognormal", lambda: D.Lognormal(np.array([0.5, -1.0, 0.25]), 2.0), [[1, 2, 3], [1, 1, 1], [0, 1, 2], [-1, 2, 3]]),
            ("smoothedlaplace", lambda: D.SmoothedLaplace(np.array([1.0, -1.0, 2.0]), 2.0, 0.25), [[1, 2, 3], [1, -1, 2], [0, 0, 0]]),
            ("gaussian", lambda: D.Gaussian(np.array([1.0, -1.0, 2.0]), cov=np.array([[2.0, 1, 0], [1, 2, 1], [0, 1, 2]])), [[1, 2, 3], [1, -1, 2], [0, 0, 0], [100, -100, 1]]),
            ("gmrf", lambda: D.GMRF(np.array([1.0, -1.0, 2.0]), 2.0), [[1, 2, 3], [0, 1, 0]]),
            ("cmrf", lambda: D.CMRF(np.array([1.0, -1.0, 2.0]), 2.0), [[1, 2, 3], [1, -1, 2]]),
            ("likelihood", lik, [[1, 2, 3], [0, 0, 0], [1, 0, 1]]),
            ("posterior-uniform-prior", lambda: D.Posterior(lik(), D.Uniform(np.array([-2.0, 0.0, 1.0]), np.array([3.0, 5.0, 4.0]))), [[1, 2, 3], [1, 7, 3], [3, 5, 4], [-3, 0, 1]]),
            ("posterior-beta-prior", lambda: D.Posterior(lik(), D.Beta(np.array([2.0, 3.0, 1.5]), 2.5)), [[0, 1, 0], [1, 2, 0]]),
            ("posterior-gaussian-prior", lambda: D.Posterior(lik(), D.Gaussian(np.zeros(3), 2.0)), [[1, 2, 3], [0, 0, 0]]),
            ("multi-uniform-prior", lambda: multi(D.Uniform(np.array([-2.0, 0.0, 1.0]), np.array([3.0, 5.0, 4.0]), name="x")), [[1, 2, 3], [1, 7, 3], [-3, 0, 1]]),
            ("multi-invgamma-prior", lambda: multi(D.InverseGamma(2.0, -1.0, 1.5, geometry=3, name="x")), [[1, 2, 3], [-1, 2, 3]]),
        ]
    for name, mk, points in int_objects():
        try:
            with quiet():
                obj = mk()
        except Exception as e:  # noqa
            ctx.note(f"int-dtype object refused {name}: {e!r}"[:160]); continue
        f_logd = lambda z, obj=obj: float(np.asarray(obj.logd(np.asarray(z, dtype=float))).ravel()[0])
        for pt in points:
            xa = np.array(pt, dtype=float)
            desc = {"int-points": name, "x": pt}
            ctx.case("int-dtype-points", desc)
            st, exc, val = classify(lambda: obj.gradient(xa), len(pt))
            bump(f"int-points:{name}:{st}")
            with quiet():
                try:
                    l0 = f_logd(xa)
                except Exception:  # noqa
                    l0 = float("nan")
            where = "inside" if math.isfinite(l0) else "outside"
            key = f"int-points:{name}:{where}-support"
            if st == "value":
                if not oracle_value(ctx, key, desc, f_logd, val, xa):
                    continue
                check_variants(ctx, key, desc, obj.gradient, xa, val)
            elif st == "nan":
                if math.isfinite(l0):
                    ctx.fail(key + ":nan-inside-support", desc, "finite gradient (logd is finite here)", "NaN", "NaN gradient where the log-density is finite")
                else:
                    check_variants(ctx, key, desc, obj.gradient, xa, None, base_status="nan")
            elif st in ("none", "not-vector"):
                if not (name == "mhn"):
                    ctx.fail(key, desc, "vector or raise", st, "neither a gradient vector nor a refusal")

    # ======================================================================= 10b. session-3 streams (own random streams; harness/props/c03_ext.py)
    from harness.props import c03_ext
    c03_ext.run_all(ctx, cuqi, thorough)

    # ======================================================================= 11. retained outputs re-verified (G8)
    ctx.case("retained-outputs", {"n_arrays": len(RETAINED)})
    for label, arr, snap in RETAINED:
        if arr.tobytes() != snap:
            kind, d_ = label if label else ("?", {})
            ctx.fail(f"retained-output-overwritten:{kind}", d_, "returned array unchanged by later calls", "changed",
                     "an array returned by an earlier gradient call was overwritten by a later call")
    ctx.case = _case
    ctx.lean.drive = _drive
