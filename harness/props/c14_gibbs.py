"""C14 helper — HybridGibbs with harness-defined block samplers on the REAL base class `Sampler`.

`ToyBlock(Sampler)` is an integer, scripted sampler (its random stream is a shared `Script`) whose
`_initialize` derives a non-state attribute `shift` from the *conditional target* it is handed by
`HybridGibbs._set_target`; `ToyBlockN(ToyBlock, NUTS)` is the same sampler but an instance of `NUTS`, so that
`HybridGibbs.step` takes its NUTS branch.  The real `HybridGibbs` (constructor, `step`, `sample`, `warmup`, `tune`,
`_store_samples`, `_set_target`) is run on these blocks and compared with `hgInit`/`hgSweep`/`hgSample`/`hgWarmup`
of `lean/CuqiVerif/Model/C14_gibbs.lean` (driver op `hgt`).
"""
import numpy as np
from harness.core import q


class Script:
    def __init__(self, vals):
        self.vals, self.pos = list(vals), 0

    def next(self):
        if self.pos < len(self.vals):
            v = self.vals[self.pos]
            self.pos += 1
            return v
        return None


def cond_sum(t):
    """sum of all values the conditional target `t` was conditioned on (they are integers): the data of its
    likelihoods plus the mean of its prior / of the distribution itself (see `make_joint`)"""
    tot = 0.0
    prior = t
    if hasattr(t, "likelihoods"):
        for L in t.likelihoods:
            tot += float(np.sum(L.data))
        prior = t.prior
    elif hasattr(t, "likelihood"):
        tot += float(np.sum(t.likelihood.data))
        prior = t.prior
    tot += float(np.sum(prior.mean))
    return int(round(tot))


def make_classes(M):
    Sampler = M.Sampler

    class ToyBlock(Sampler):
        _STATE_KEYS = Sampler._STATE_KEYS.union({'scale', 'eps_bar'})
        _HISTORY_KEYS = Sampler._HISTORY_KEYS

        def __init__(self, target=None, scale=1, script=None, **kw):
            Sampler.__init__(self, target, **kw)
            self.initial_scale = scale
            self.script = script

        def _initialize(self):
            self.scale = self.initial_scale
            self.eps_bar = "unset"
            self.shift = cond_sum(self.target) % 5

        def validate_target(self):
            pass

        def reinitialize(self):
            Sampler.reinitialize(self)

        def step(self):
            d = self.script.next()
            if d is None:
                return 0
            prop = self.current_point + self.scale * d + self.shift
            if d % 2 == 0:
                self.current_point = prop
                return 1
            u = self.script.next()
            if u is None:
                return 0
            if u <= self.eps_bar:
                self.current_point = prop
                return 1
            return 0

        def tune(self, skip_len, update_count):
            self.scale = self.scale + int(sum(self._acc[-skip_len:])) + update_count
            self.eps_bar = self.eps_bar + 1

        def _pre_sample(self):
            if isinstance(self.eps_bar, str) and self.eps_bar == "unset":
                self.eps_bar = self.scale

        def _pre_warmup(self):
            if isinstance(self.eps_bar, str) and self.eps_bar == "unset":
                self.eps_bar = 1

    class ToyBlockN(ToyBlock, M.NUTS):
        """the same sampler, but `isinstance(s, NUTS)`"""
        pass

    return ToyBlock, ToyBlockN


def make_joint(cuqi, dims):
    """joint of 2 or 3 Gaussian parameters a, b(, c); every conditional exposes the sum of the conditioning
    values through `cond_sum`"""
    G = cuqi.distribution.Gaussian
    da = dims[0]
    a = G(np.zeros(da), 1, geometry=da, name="a")
    db = dims[1]
    b = G(lambda a: np.concatenate([[np.sum(a)], np.zeros(db - 1)]), 1, geometry=db, name="b")
    if len(dims) == 2:
        return cuqi.distribution.JointDistribution(a, b)
    dc = dims[2]
    c = G(lambda a, b: np.concatenate([[np.sum(a) + np.sum(b)], np.zeros(dc - 1)]), 1, geometry=dc, name="c")
    return cuqi.distribution.JointDistribution(a, b, c)


NAMES = ["a", "b", "c"]


def fmt_point(x):
    v = [int(t) for t in np.asarray(x).ravel()]
    return ":".join(str(t) for t in v) if v else "e"


def fmt_val(v):
    if v is None:
        return "N"
    if isinstance(v, str):
        return "U" if v == "unset" else "?"
    if isinstance(v, np.ndarray):
        return fmt_point(v)
    return str(int(v))


def cj(xs, sep=","):
    xs = list(xs)
    return sep.join(xs) if xs else "_"


def gen_config(rng):
    k = rng.choice([2, 3, 3])
    dims = [rng.choice([1, 2, 3]) for _ in range(k)]
    blocks = []
    for j in range(k):
        x0 = None if rng.random() < 0.2 else [rng.randint(-3, 3) for _ in range(dims[j])]
        blocks.append({"x0": x0, "dim": dims[j], "scale": rng.randint(1, 3), "nuts": rng.random() < 0.25,
                       "nsteps": rng.choice([None, 1, 1, 2, 3, 0]), "preinit": False})
    if rng.random() < 0.08:
        blocks[rng.randrange(k)]["preinit"] = True
    ops = []
    for _ in range(rng.randint(2, 6)):
        r = rng.random()
        if r < 0.45:
            ops.append(f"s{rng.randint(0, 4)}")
        elif r < 0.8:
            ops.append(("w", rng.randint(0, 7), rng.choice([0.1, 0.25, 0.3, 0.5, 1.0, 0.7])))
        else:
            ops.append("get")
    ops.append("get")
    stream = [rng.randint(-4, 6) for _ in range(140)]
    return {"blocks": blocks, "ops": ops, "stream": stream}


def op_str(op):
    return op if isinstance(op, str) else f"w{op[1]}@{q(op[2])}"


def line_of(cfg):
    bl = []
    for b in cfg["blocks"]:
        x0 = f"N{b['dim']}" if b["x0"] is None else ":".join(map(str, b["x0"]))
        ns = "d" if b["nsteps"] is None else str(b["nsteps"])
        bl.append(f"{x0}|{b['scale']}|{int(b['nuts'])}|{ns}|{int(b['preinit'])}")
    return f"hgt {';'.join(bl)} {';'.join(op_str(o) for o in cfg['ops'])} {','.join(map(str, cfg['stream']))}"


def build(cuqi, M, classes, cfg, script):
    ToyBlock, ToyBlockN = classes
    k = len(cfg["blocks"])
    joint = make_joint(cuqi, [b["dim"] for b in cfg["blocks"]])
    strat, nss = {}, {}
    for name, b in zip(NAMES, cfg["blocks"]):
        cls = ToyBlockN if b["nuts"] else ToyBlock
        x0 = None if b["x0"] is None else np.array(b["x0"], dtype=np.int64)
        s = cls(scale=b["scale"], script=script, initial_point=x0)
        if b["preinit"]:
            s.target = cuqi.distribution.Gaussian(np.zeros(b["dim"]), 1)
            s.initialize()
        strat[name] = s
        if b["nsteps"] is not None:
            nss[name] = b["nsteps"]
    if not nss:
        nss = None
    return M.HybridGibbs(joint, strat, num_sampling_steps=nss)


def snapshot(hg, tunes, script):
    names = hg.par_names
    n = len(hg.samples[names[0]])
    rows = ["|".join(fmt_point(hg.samples[p][i]) for p in names) for i in range(n)]
    blocks = []
    for p in names:
        s = hg.samplers[p]
        blocks.append(cj((str(int(a)) for a in s._acc), ".") + "/" + fmt_val(s.current_point) + "/" + fmt_val(s.scale) + "/" + fmt_val(s.eps_bar)
                      + "/" + fmt_val(s.shift) + "/" + ("1" if s._is_initialized else "0"))
    return ("C=" + "|".join(fmt_point(hg.current_samples[p]) for p in names) + ";S=" + cj(rows)
            + ";T=" + cj(f"{a}/{b}/{c}" for a, b, c in tunes) + ";B=" + cj(blocks) + ";R=" + str(len(script.vals) - script.pos))


def run_impl(cuqi, M, classes, cfg):
    """execute the program on the real HybridGibbs; returns the '#'-joined snapshots or 'err:<where>'"""
    script = Script(cfg["stream"])
    try:
        hg = build(cuqi, M, classes, cfg, script)
    except ValueError as e:
        return "err:init", repr(e)[:160]
    tunes = []
    otune = hg.tune

    def tune(skip_len, update_count):
        tunes.append((len(hg.samples[hg.par_names[0]]), int(skip_len), int(update_count)))
        return otune(skip_len, update_count)
    hg.tune = tune
    out = []
    for i, op in enumerate(cfg["ops"]):
        try:
            if op == "get":
                out.append(snapshot(hg, tunes, script))
            elif isinstance(op, tuple):
                hg.warmup(op[1], tune_freq=op[2])
            else:
                hg.sample(int(op[1:]))
        except Exception as e:
            return f"err:{i}", repr(e)[:160]
    return "#".join(out) if out else "_", None


def oracle(cuqi, M, classes, cfg, fail):
    """the property on the real HybridGibbs with these blocks: exact length, stored rows = the state after each
    sweep (never altered later), and N-then-M = N+M for every split position, from the same stream"""
    def chain(hg):
        names = hg.par_names
        return [np.concatenate([np.asarray(hg.samples[p][i], dtype=float).ravel() for p in names]) for i in range(len(hg.samples[names[0]]))]

    def eq(c1, c2):
        return len(c1) == len(c2) and all(x.shape == y.shape and np.array_equal(x, y) for x, y in zip(c1, c2))
    N, K = 5, 3
    base = dict(cfg)
    base["blocks"] = [dict(b, preinit=False) for b in cfg["blocks"]]
    try:
        sc = Script(cfg["stream"])
        a = build(cuqi, M, classes, base, sc)
        sweeps = []
        orig = a.step

        points = []

        def step():
            orig()
            sweeps.append(np.concatenate([np.asarray(a.current_samples[p], dtype=float).ravel() for p in a.par_names]))
            points.append(np.concatenate([np.asarray(a.samplers[p].current_point, dtype=float).ravel() for p in a.par_names]))
        a.step = step
        a.warmup(K, tune_freq=0.5)
        a.sample(N)
        ref = chain(a)
    except Exception as e:
        return
    if len(ref) != K + N:
        fail("length", K + N, len(ref), "recorded Gibbs chain does not have the requested length", {"ops": [f"warmup({K})", f"sample({N})"]})
    if len(sweeps) == len(ref) and not eq(ref, sweeps):
        fail("consecutive", "i-th stored state = state after the i-th sweep", "differs", "stored Gibbs chain is not the sequence of consecutive states",
             {"ops": [f"warmup({K})", f"sample({N})"]})
    if len(points) == len(ref) and not eq(ref, points):
        fail("consecutive", "i-th stored entry = current_point of the block samplers after the i-th sweep", "differs",
             "the recorded Gibbs chain lists values that are not the states produced by the block samplers' transitions", {"ops": [f"warmup({K})", f"sample({N})"]})
    for p in range(N + 1):
        try:
            b = build(cuqi, M, classes, base, Script(cfg["stream"]))
            b.warmup(K, tune_freq=0.5)
            b.sample(p)
            b.sample(N - p)
            cb = chain(b)
        except Exception as e:
            fail("split", "sample(p); sample(N-p) runs", repr(e)[:120], "split run raised", {"position": p})
            continue
        if not eq(cb, ref):
            fail("split", "sample(p); sample(N-p) == sample(N) from the same stream", f"position {p}", "Gibbs chain is not continuous across a split", {"position": p})
