"""C17 — shipped test problems match their documentation and are internally consistent.

Correspondence: every test problem is constructed on the real code with a *scripted* normal stream,
the same options are sent to the Lean model (documented operator + code-faithful assembly), and the
outputs are diffed.  Oracle (implementation only): forward model vs the documented operator,
exactData = model(exactSolution), data - exactData = stated sigma * the scripted draw,
component identities, posterior.logd = Gaussian log-likelihood of the stated noise + log-prior.
"""
import math, contextlib
import numpy as np
from fractions import Fraction
from harness.core import import_cuqi, quiet, q, qv, qm, pq, pv, pm, close, vclose, mclose
from harness.props import c17_ext as _ext0

LOG2PI = math.log(2 * math.pi)


# ----------------------------------------------------------------------------- small helpers
def kv(out):
    return dict(tok.split("=", 1) for tok in out.split(" ") if "=" in tok)


def fvec(s):
    return np.array([float(x) for x in pv(s)], dtype=float)


def fmat(s, cols=0):
    m = pm(s)
    return np.array([[float(x) for x in r] for r in m], dtype=float) if m else np.zeros((0, cols))


def dense(M):
    return np.asarray(M.todense()) if hasattr(M, "todense") else np.asarray(M)


def A1(x):
    return np.asarray(x, dtype=float).ravel()


def meq(A, B, tol):
    """tol scalar: relative+absolute closeness; tol array: entrywise |A-B| <= tol (custom PSFs: every weight, also
    1e-14 and negative ones, must survive — the bound is the rounding of the sum of the contributing weights)"""
    A, B = np.asarray(A, dtype=float), np.asarray(B, dtype=float)
    if A.shape != B.shape:
        return False
    if isinstance(tol, np.ndarray):
        return bool(np.all(np.abs(A - B) <= tol))
    return mclose(A, B, tol)


class Script:
    """scripted standard-normal stream: dyadic, non-zero, recorded"""

    def __init__(self, seed):
        self.rs = np.random.RandomState(seed)
        self.calls = []

    def _xi(self, shape):
        xi = np.array(np.round(self.rs.randn(*shape) * 8.0) / 8.0, dtype=float)
        xi = np.where(xi == 0, 0.375, xi)
        return xi

    def randn(self, *shape):
        xi = self._xi(tuple(int(s) for s in shape))
        self.calls.append(("randn", xi))
        return xi.copy()

    def standard_normal(self, size=None):
        shape = () if size is None else (tuple(size) if hasattr(size, "__len__") else (int(size),))
        xi = self._xi(shape)
        self.calls.append(("standard_normal", xi))
        return xi.copy()

    def normal(self, loc=0.0, scale=1.0, size=None):
        shape = () if size is None else (tuple(size) if hasattr(size, "__len__") else (int(size),))
        xi = self._xi(shape)
        self.calls.append(("normal", xi, loc, scale))
        return loc + scale * xi


@contextlib.contextmanager
def scripted(seed):
    S = Script(seed)
    saved = (np.random.randn, np.random.normal, np.random.standard_normal)
    np.random.randn, np.random.normal, np.random.standard_normal = S.randn, S.normal, S.standard_normal
    try:
        yield S
    finally:
        np.random.randn, np.random.normal, np.random.standard_normal = saved


class Batch:
    """collect driver lines with callbacks; one driver run per round"""

    def __init__(self):
        self.lines, self.jobs = [], []

    def add(self, lines, cb):
        self.jobs.append((len(self.lines), len(lines), cb))
        self.lines += lines

    def run(self, ctx):
        import traceback
        outs = ctx.lean.drive(self.lines)
        for s, n, cb in self.jobs:
            try:
                cb(outs[s:s + n])
            except Exception as e:   # a public call of the implementation raised inside a comparison
                tb = traceback.format_exc().strip().splitlines()
                if not any("/cuqi/" in l for l in tb):
                    raise                      # an error of the harness itself: machinery failure, not a finding
                where = next((l.strip() for l in reversed(tb) if "/cuqi/" in l), tb[-1])
                d = {"lines": self.lines[s:s + n][:2], "exception": repr(e)[:200], "where": where[:200]}
                ctx.case("crash", d)
                ctx.fail("crash:" + type(e).__name__, d, "the comparison runs", repr(e)[:200],
                         "a call on the constructed test problem raised during the comparison")


def geom_compatible(g1, g2):
    """same geometry, or one of them is a default (unset) geometry of the same parameter dimension"""
    from cuqi.geometry import _DefaultGeometry
    if g1 is None or g2 is None:
        return True
    if isinstance(g1, _DefaultGeometry) or isinstance(g2, _DefaultGeometry):
        return g1.par_dim == g2.par_dim
    # (Geometry.__eq__ also compares the private variable name, which differs between otherwise equal geometries)
    if type(g1) is not type(g2) or tuple(g1.par_shape) != tuple(g2.par_shape) or tuple(g1.fun_shape) != tuple(g2.fun_shape):
        return False
    a, b = getattr(g1, "grid", None), getattr(g2, "grid", None)
    if isinstance(a, np.ndarray) and isinstance(b, np.ndarray):
        return a.shape == b.shape and bool(np.allclose(a, b, rtol=0, atol=1e-14))
    return getattr(g1, "order", None) == getattr(g2, "order", None)


def sym_class(P):
    P = np.asarray(P, dtype=float)
    if P.ndim == 1:
        return "sym" if (len(P) % 2 == 1 and np.array_equal(P, P[::-1])) else "asym"
    return "sym" if (P.shape[0] % 2 == 1 and np.array_equal(P, P[::-1, :]) and np.array_equal(P, P[:, ::-1])) else "asym"



# ----------------------------------------------------------------------------- observation maps that MOVE nodes
MOVED = ("shift", "one", "warp")


def obs_map(kind, ep):
    """observation_grid_map for the PDE problems; the MOVED kinds keep length and end nodes"""
    if kind == "half":
        return lambda g: g[g > ep / 2]
    if kind == "even":
        return lambda g: g[::2]
    if kind == "shift":      # every interior node moved by a quarter cell
        def f(g):
            g = np.array(g, dtype=float); g[1:-1] += 0.25 * (g[1] - g[0]); return g
        return f
    if kind == "one":        # everything kept but one interior node
        def f(g):
            g = np.array(g, dtype=float); k = len(g) // 2; g[k] += 0.4 * (g[1] - g[0]); return g
        return f
    if kind == "warp":       # a different grid of the same length between the same end nodes
        def f(g):
            g = np.array(g, dtype=float); t = np.linspace(0, 1, len(g)); return g[0] + (g[-1] - g[0]) * t ** 1.5
        return f
    return None


def interp_obs(problem, grid_sol, u_full, grid_obs):
    """independent evaluation of the documented observation operator: the interpolant the PDE classes document
    (steady: quadratic interp1d; time dependent: bicubic spline, which on a stored time level is the cubic
    interpolating spline in space), scipy called directly"""
    from scipy.interpolate import interp1d, InterpolatedUnivariateSpline
    if problem == "Poisson1D":
        return np.asarray(interp1d(grid_sol, u_full, kind="quadratic")(grid_obs), dtype=float)
    return np.asarray(InterpolatedUnivariateSpline(grid_sol, u_full, k=3)(grid_obs), dtype=float)


def finite_guard(ctx, name, desc, what, arr, inputs_finite=True):
    """non-finite values are handled deliberately: never sent to the model.  If the implementation produced a non-finite
    `what` from finite, valid inputs that is an oracle failure; if the inputs themselves were non-finite it is noted."""
    a = np.asarray(arr, dtype=float)
    if np.all(np.isfinite(a)):
        return True
    if inputs_finite:
        ctx.fail(f"{name}:{what}:non-finite", desc, f"finite {what}", [float(v) for v in a.ravel()[:6]], f"{what} contains NaN/inf although the stated inputs are finite")
    else:
        ctx.note(f"{name}: {what} non-finite because an input (phantom / exact solution leaf) is non-finite at {desc}; skipped")
    return False


def vrel(a, b, tol):
    """scale-free closeness of two vectors (extreme scales: no absolute floor)"""
    a, b = A1(a), A1(b)
    if a.shape != b.shape:
        return False
    if not (np.all(np.isfinite(a)) and np.all(np.isfinite(b))):
        return bool(np.array_equal(np.isfinite(a), np.isfinite(b)))
    sc = max(float(np.max(np.abs(a), initial=0.0)), float(np.max(np.abs(b), initial=0.0)))
    return bool(np.max(np.abs(a - b), initial=0.0) <= tol * sc)


def relayout(a, layout):
    """G7: the same numbers in another memory layout"""
    if layout is None:
        return a
    if layout == "strided":
        big = np.zeros(tuple(2 * k for k in a.shape), dtype=a.dtype)
        sl = tuple(slice(None, None, 2) for _ in a.shape)
        big[sl] = a
        return big[sl]
    if layout == "negstride":
        sl = tuple(slice(None, None, -1) for _ in a.shape)
        return np.ascontiguousarray(a[sl])[sl]
    if layout == "fortran":
        return np.asfortranarray(a) if a.ndim > 1 else a
    if layout == "transposed-view":
        return np.ascontiguousarray(a.T).T if a.ndim > 1 else a
    if layout == "readonly":
        b = a.copy(); b.flags.writeable = False
        return b
    return a


def snap_arrays(d):
    return {k: (v.dtype.str, v.shape, v.tobytes()) for k, v in d.items() if isinstance(v, np.ndarray)}


def caller_objects_check(ctx, name, desc, objs, before, when):
    """G2: arrays the caller passed in are never modified"""
    after = snap_arrays(objs)
    bad = [k for k in before if before[k] != after.get(k)]
    if bad:
        ctx.fail(f"{name}:caller-object-mutated:{when}", {**desc, "objects": bad}, "caller-owned arrays unchanged", bad,
                 f"arrays passed by the caller were modified ({when})")


def alias_check(ctx, name, desc, tp):
    """G3: data and exactData are distinct buffers (noise must not be written into the exact data)"""
    try:
        if tp.exactData is not None and isinstance(tp.data, np.ndarray) and np.shares_memory(np.asarray(tp.data), np.asarray(tp.exactData)):
            ctx.fail(f"{name}:alias:data-exactData", desc, "distinct buffers", "shared memory", "data and exactData share memory")
    except Exception:
        pass


def tp_snapshot(tp):
    """byte snapshot of everything the problem hands out"""
    out = {}
    def put(k, v):
        try:
            a = np.asarray(v)
            out[k] = (a.dtype.str, a.shape, a.tobytes())
        except Exception as e:
            out[k] = ("err", repr(e)[:60])
    put("data", tp.data); put("likelihood.data", tp.likelihood.data)
    if tp.exactData is not None:
        put("exactData", tp.exactData)
    if tp.exactSolution is not None:
        put("exactSolution", tp.exactSolution)
    out["infoString"] = getattr(tp, "infoString", None)
    pr = tp.prior
    for a in ("mean", "cov", "location", "scale"):
        if hasattr(pr, a) and not callable(getattr(pr, a)):
            put("prior." + a, getattr(pr, a))
    put("likelihood.cov", tp.likelihood.distribution.cov)
    from cuqi.model import LinearModel
    with quiet():
        try:
            if isinstance(tp.model, LinearModel):
                put("model.matrix", dense(tp.model.get_matrix()))
        except Exception:
            pass
    return out


def check_history(ctx, name, desc, build, new_prior=None, ops=("MAP", "MAP"), sample=0):
    """G5 / read-only operations: MAP / ML / sample_posterior must not change what the problem hands out; a repeated
    call gives the same result, equal to that of a freshly built identical problem (same scripted stream)."""
    with quiet():
        tp, fresh = build(), build()
        if new_prior is not None:
            tp.prior = new_prior()
            fresh.prior = new_prior()
    d = {**desc, "history": list(ops) + ([f"sample_posterior({sample})"] if sample else [])}
    ctx.case("history", d)
    s0 = tp_snapshot(tp)
    if s0 != tp_snapshot(fresh):
        ctx.fail(f"{name}:history:construction-not-reproducible", d, "identical problems from identical options and random stream", "differ")
        return
    n = tp.model.domain_dim
    x = np.linspace(0.25, 1.0, n)
    def logd(t):
        with quiet():
            try:
                return float(np.asarray(t.posterior.logd(x)).ravel()[0])
            except Exception:
                return float("nan")
    l0 = logd(tp)
    results = []
    mutated = False
    for k, op in enumerate(ops):
        with quiet():
            try:
                r = A1(tp.MAP(disp=False)) if op == "MAP" else A1(tp.ML(disp=False))
            except Exception as e:
                r = None
                ctx.note(f"{name} {op} raised at {d}: {repr(e)[:80]}")
        results.append((op, r))
        s1 = tp_snapshot(tp)
        changed = [f for f in s0 if s0[f] != s1.get(f)]
        if changed:
            ctx.fail(f"{name}:history:{op}:mutates:{changed[0]}", {**d, "after_call": k + 1, "changed": changed}, "components unchanged by a read-only call", changed,
                     f"{op}() changed what the test problem hands out ({', '.join(changed)})")
            mutated = True
            break
        l1 = logd(tp)
        if math.isfinite(l0) and not close(l1, l0, 1e-12):
            ctx.fail(f"{name}:history:{op}:mutates:posterior.logd", {**d, "after_call": k + 1}, l0, l1, f"posterior.logd changed after {op}()")
            break
    # repeated call == first call == fresh problem
    firsts = {}
    for op, r in results:
        if r is None:
            continue
        if op in firsts and (r.shape != firsts[op].shape or not vrel(r, firsts[op], 1e-9)):
            ctx.fail(f"{name}:history:{op}:repeat", d, list(firsts[op][:6]), list(r[:6]), f"a second {op}() gives a different result")
        firsts.setdefault(op, r)
    for op, r in firsts.items():
        with quiet():
            try:
                rf = A1(fresh.MAP(disp=False)) if op == "MAP" else A1(fresh.ML(disp=False))
            except Exception:
                rf = None
        if rf is not None and (r.shape != rf.shape or not vrel(r, rf, 1e-9)):
            ctx.fail(f"{name}:history:{op}:fresh", d, list(rf[:6]), list(r[:6]), f"{op}() differs from that of a freshly built identical problem")
    if sample and not mutated:
        st = np.random.get_state()
        try:
            np.random.seed(12345)
            with quiet():
                try:
                    tp.sample_posterior(sample)
                except Exception as e:
                    ctx.note(f"{name} sample_posterior raised at {d}: {repr(e)[:80]}")
        finally:
            np.random.set_state(st)
        s2 = tp_snapshot(tp)
        changed = [f for f in s0 if s0[f] != s2.get(f)]
        if changed:
            ctx.fail(f"{name}:history:sample_posterior:mutates:{changed[0]}", {**d, "changed": changed}, "components unchanged by sampling", changed,
                     "sample_posterior() changed what the test problem hands out")



STATED = {}        # session 3: stated phantoms (model / documented formulas), set by run()
RETAINED = []      # G8: (label, returned object, copy at return time) — re-verified at the very end of the run


def retain(label, arr):
    try:
        a = np.asarray(arr)
        RETAINED.append((label, arr, a.copy()))
    except Exception:
        pass


def retain_tp(name, tp):
    for a in ("data", "exactData", "exactSolution"):
        v = getattr(tp, a, None)
        if v is not None:
            retain(f"{name}|tp.{a}", v)


def verify_retained(ctx):
    bad = 0
    for label, obj, cp in RETAINED:
        try:
            now = np.asarray(obj)
            same = now.shape == cp.shape and (np.array_equal(now, cp) or (now.dtype.kind == "f" and np.array_equal(np.isnan(now), np.isnan(cp)) and np.array_equal(np.nan_to_num(now), np.nan_to_num(cp))))
        except Exception:
            same = False
        if not same and bad < 5:
            bad += 1
            ctx.fail("retained-output-changed:" + label.split("|")[0], {"object": label}, "an array handed out earlier keeps its values", "changed later",
                     "an earlier result was overwritten by a later call (shared internal buffer / view into a cache)")
    ctx.case("retained-outputs", {"count": len(RETAINED)}, nontrivial=False)
    RETAINED.clear()


def check_forward_history(ctx, name, desc, build, x0, is_par=True, h=0.5, linear=False):
    """G5/G7/G8 on model.forward of a test problem, implementation only: every evaluation on a reused, in-place modified
    buffer, on other array layouts / subclasses of the same numbers, and on exact zeros must equal the evaluation of a
    FRESHLY built identical problem at a fresh contiguous float64 copy of the current values."""
    from cuqi.array import CUQIarray
    with quiet():
        tp = build()
    kw = {} if is_par else {"is_par": False}
    def fw(t, x):
        with quiet():
            return A1(t.model.forward(x, **kw))
    def fresh(x):
        with quiet():
            tf = build()
            return A1(tf.model.forward(np.array(x, dtype=float).copy(), **kw))
    d = {**desc, "check": "forward-history", "is_par": is_par}
    ctx.case("forward-history", d)
    key = f"{name}:history:forward"
    n = len(x0)
    def cmp(tag, got, x):
        ref = fresh(x)
        if got.shape != ref.shape or not vrel(got, ref, 1e-10):
            ctx.fail(f"{key}:{tag}", {**d, "x": [float(v) for v in np.asarray(x, dtype=float)[:8]]}, list(ref[:6]), list(got[:6]),
                     f"model.forward differs from a freshly built identical problem at the same values ({tag})")
            return False
        return True
    try:
        xb = np.array(x0, dtype=float)
        y0 = fw(tp, xb); retain(f"{name}|forward#0", y0); cmp("first", y0, xb)
        for k, i in enumerate((0, n // 2, n - 1)):
            xb[i] += h * (k + 1)                                   # in place, same buffer
            y = fw(tp, xb); retain(f"{name}|forward#{k + 1}", y)
            if not cmp("inplace", y, xb):
                break
        prev = xb.copy()
        xb[:] = x0                                                 # back to the first values, in place
        cmp("inplace-restore", fw(tp, xb), xb)
        cmp("fresh-array-earlier-values", fw(tp, prev.copy()), prev)
        # G7 layouts / subclasses / G1 lists of the same numbers
        big = np.zeros(2 * n); big[::2] = x0
        ro = np.array(x0, dtype=float); ro.flags.writeable = False
        variants = [("strided", big[::2]), ("negative-stride", np.array(x0, dtype=float)[::-1][::-1]), ("read-only", ro), ("reversed-view", np.ascontiguousarray(np.array(x0, dtype=float)[::-1])[::-1])]
        if is_par:
            variants.append(("CUQIarray", CUQIarray(np.array(x0, dtype=float), geometry=tp.model.domain_geometry)))
        if np.all(np.asarray(x0) == np.round(x0)):
            variants += [("int64", np.array(x0).astype(np.int64)), ("list", [float(v) for v in x0])]
        for tag, xv in variants:
            try:
                got = fw(tp, xv)
            except Exception as e:
                ctx.note(f"{name} forward refused layout {tag} at {desc}: {repr(e)[:80]}")
                continue
            cmp("layout:" + tag, got, np.asarray(xv, dtype=float))
        if linear:
            z = fw(tp, np.zeros(n))
            if np.any(z != 0):
                ctx.fail(f"{key}:zero", d, "forward(0) = 0 for a linear problem", list(z[:6]), "forward of the zero vector is not zero")
    except Exception as e:
        import traceback
        if "/cuqi/" not in traceback.format_exc():
            raise
        ctx.fail(f"{key}:crash", d, "the evaluation history runs", repr(e)[:160], "model.forward raised inside an evaluation history")


# ----------------------------------------------------------------------------- shared checks
def check_components(ctx, B, name, tp, desc):
    """get_components / accessor identities (oracle) and the model's plumbing record (tie)"""
    key = f"{name}:components"

    def cb(outs):
        r = kv(outs[0])
        with quiet():
            m, d, info = tp.get_components()
        impl = {
            "model": "model" if (m is tp.model and tp.likelihood.model is m and tp.posterior.model is m) else "other",
            "data": "data" if (d is tp.data and tp.likelihood.data is d and tp.posterior.data is d) else "other",
            "exactSolution": "None" if info.exactSolution is None else ("exactSolution" if info.exactSolution is tp.exactSolution else "other"),
            "exactData": "None" if info.exactData is None else ("exactData" if info.exactData is tp.exactData else "other"),
            "info": "1" if info.infoString is not None else "0",
            "misc": "1" if info.Miscellaneous is not None else "0",
            "likdist": "dataDist" if tp.likelihood.distribution.mean is m else "other",
            "prior": "prior" if tp.posterior.prior is tp.prior else "other",
        }
        ctx.case("components", {**desc, "check": "components"})
        bad = {k: (r.get(k), v) for k, v in impl.items() if r.get(k) != v}
        if bad:
            ctx.disagree(key, desc, str({k: v[0] for k, v in bad.items()}), str({k: v[1] for k, v in bad.items()}), "component record differs")
            if any(v[1] == "other" for v in bad.values()):
                ctx.fail(key, desc, "components returned by get_components are the problem's own model/data/exact values", str(bad),
                         "get_components / accessors hand out different objects")
            else:
                ctx.fail(key, desc, "documented attributes present", str(bad), "ProblemInfo fields differ from the constructor's attributes")
        # oracle, independent of the model: identities and geometries
        probs = []
        if tp.posterior.likelihood is not tp.likelihood:
            probs.append("posterior.likelihood is not likelihood")
        if info.infoString is not None and info.infoString != getattr(tp, "infoString", None):
            probs.append("infoString differs")
        mdl = tp.model
        if not geom_compatible(tp.prior.geometry, mdl.domain_geometry):
            probs.append("prior geometry != model domain geometry")
        if not geom_compatible(tp.likelihood.distribution.geometry, mdl.range_geometry):
            probs.append("data distribution geometry != model range geometry")
        if not geom_compatible(getattr(tp.data, "geometry", None), mdl.range_geometry):
            probs.append("data geometry != model range geometry")
        if tp.exactData is not None and not geom_compatible(getattr(tp.exactData, "geometry", None), mdl.range_geometry):
            probs.append("exactData geometry != model range geometry")
        if tp.exactSolution is not None and not geom_compatible(getattr(tp.exactSolution, "geometry", None), mdl.domain_geometry):
            probs.append("exactSolution geometry != model domain geometry")
        if not geom_compatible(tp.posterior.geometry, mdl.domain_geometry):
            probs.append("posterior geometry != model domain geometry")
        if tp.prior.dim != mdl.domain_dim or np.size(tp.data) != mdl.range_dim:
            probs.append("dimensions differ")
        if probs:
            ctx.fail(key + ":geometry", desc, "model, data, likelihood, prior, posterior share model/data/geometries", "; ".join(probs))

    B.add([f"comp {name}"], cb)


def check_logd(ctx, B, name, tp, desc, cov_stated, fwd_model, rs, npts=2, scale=1.0, positive=False):
    """posterior.logd(x) = Gaussian loglik(stated cov) + logprior(x).
    tie: quadratic form through the Lean model (data - model operator applied to x);
    oracle: the same with the implementation's own forward."""
    n = tp.model.domain_dim
    data = A1(tp.data)
    m = data.size
    xs_ok = tp.exactSolution is None or bool(np.all(np.isfinite(A1(tp.exactSolution))))
    if not finite_guard(ctx, name, desc, "data", data, inputs_finite=xs_ok):
        return
    cov = np.broadcast_to(np.asarray(cov_stated, dtype=float).ravel(), (m,)) if np.size(cov_stated) > 1 else np.full(m, float(np.asarray(cov_stated).ravel()[0]))
    if not np.all(np.isfinite(cov)) or np.any(cov <= 0):
        return
    if float(cov.min()) < 1e-18 * float(cov.max()):
        # an exact datum that is zero up to FFT round-off: the scaled variance is ~1e-34 and the quadratic form
        # amplifies 1e-16 differences to O(1); nothing can be compared (same input class as the zero-exact-data finding)
        ctx.note(f"{name}: log-density comparison skipped, scaled variance numerically zero at {desc}")
        return
    logdet = float(np.sum(np.log(cov)))
    pts = [np.round(rs.randn(n) * 2.0) / 2.0 * scale for _ in range(npts)]
    if positive:
        pts = [np.abs(x) + 0.5 for x in pts]
    lines, keep = [], []
    for x in pts:
        try:
            with quiet():
                fm_ = A1(fwd_model(x)) if fwd_model is not None else A1(tp.model.forward(x))
                fi = A1(tp.model.forward(x))
                lp = float(np.asarray(tp.prior.logd(x)).ravel()[0])
                got = float(np.asarray(tp.posterior.logd(x)).ravel()[0])
                ll = float(np.asarray(tp.likelihood.logd(x)).ravel()[0])
        except Exception as e:
            ctx.note(f"{name} logd evaluation raised at {desc}: {repr(e)[:100]}")
            continue
        if not (np.all(np.isfinite(fm_)) and np.all(np.isfinite(fi)) and math.isfinite(lp)):
            continue
        lines.append(f"quad {qv(cov)} {qv(data - fm_)}")
        keep.append((x, fi, lp, got, ll))

    def cb(outs):
        for out, (x, fi, lp, got, ll) in zip(outs, keep):
            d = {**desc, "check": "logd", "x": [float(v) for v in x][:8]}
            ctx.case("posterior-logd", d)
            if out.startswith("err") or out == "bad-op":
                ctx.note(f"quad refused at {d}: {out}")
                continue
            quad_model = float(pq(out))
            ref_model = -0.5 * (quad_model + logdet + m * LOG2PI) + lp
            quad_impl = float(np.sum((data - fi) ** 2 / cov))
            ref_impl = -0.5 * (quad_impl + logdet + m * LOG2PI) + lp
            key = f"{name}:logd"
            ok_oracle = close(got, ref_impl, 1e-8) and close(got, ll + lp, 1e-9)
            if not close(got, ref_model, 1e-7):
                ctx.disagree("tie:" + key, d, ref_model, got, "posterior.logd vs model recomposition")
                if not ok_oracle:
                    ctx.fail("tie:" + key, d, ref_impl, got, "posterior.logd is not Gaussian loglik(stated noise) + logprior")
                elif not close(quad_impl, quad_model, 1e-7):
                    ctx.fail("tie:" + key, d, quad_model, quad_impl, "forward model differs from the modelled operator inside the log-likelihood")
            if not ok_oracle:
                ctx.fail(key, d, ref_impl, got, "posterior.logd is not Gaussian log-likelihood of the stated noise + log-prior")

    if lines:
        B.add(lines, cb)


def stated_noise_oracle(ctx, key, desc, data, exact, std_vec, S, kind):
    """implementation-only: data - exact = stated std * the (single) scripted standard-normal draw"""
    calls = [c for c in S.calls]
    if len(calls) != 1 or calls[0][0] != kind or calls[0][1].size != exact.size:
        ctx.fail(key, desc, f"one {kind} draw of the data size", [(c[0], list(c[1].shape)) for c in calls],
                 "data are not generated from one normal draw of the data size")
        return None
    xi = calls[0][1].ravel()
    if kind == "normal" and not (float(np.max(np.abs(np.asarray(calls[0][2])))) == 0.0):
        ctx.fail(key, desc, "zero-mean noise", float(np.max(np.abs(np.asarray(calls[0][2])))), "noise has non-zero mean")
    if not vrel(data, exact + std_vec * xi, 1e-9) or not vclose((data - exact), std_vec * xi, 1e-6 * float(np.max(np.abs(std_vec))) if np.max(np.abs(std_vec)) > 0 else 1e-12):
        ctx.fail(key, desc, list((exact + std_vec * xi)[:6]), list(data[:6]), "data - exactData is not the stated noise level times the normal draw")
    return xi


# ----------------------------------------------------------------------------- Deconvolution1D
BC1 = ["zero", "periodic", "mirror", "reflect", "nearest"]
PHANTOMS = ["gauss", "sinc", "vonmises", "square", "hat", "bumps", "derivgauss", "pc", "skyscraper"]


def gen_psf1(rng, dim):
    r = rng.random()
    if r < 0.55:
        s = rng.choice([1, 2, 3, 3, 4, 5, 5, 6, dim, dim + 1])
        if rng.random() < 0.45 and s % 2 == 1:
            half = [rng.randint(0, 4) for _ in range(s // 2)]
            P = half + [rng.randint(1, 5)] + half[::-1]
        else:
            lo = -3 if rng.random() < 0.4 else 0
            P = [rng.randint(lo, 5) for _ in range(s)]
            if not any(P):
                P[0] = 1
        if rng.random() < 0.15:
            P = [v * rng.choice([1e-14, -1e-14, 0.5, -0.25]) if rng.random() < 0.4 else v for v in P]
        return ("arr", [float(v) for v in P])
    name = rng.choice(["Gauss", "gauss", "Moffat", "Defocus", "defocus"])
    return ("name", name, rng.choice([None, 1.0, 2.5, 0.75]), rng.choice([None, 3, 4, 5]))


def doc_psf(name, size, param, ndim=1):
    """Documented named PSFs, written independently of the implementation: a Gaussian (std = PSF_param) / Moffat
    (beta = 1) profile sampled at the integer offsets from the array entry `size//2` — the entry at which
    scipy.ndimage.convolve1d / the padded fftconvolve centre the kernel — normalised to sum 1.  `None`: no formula
    documented (Defocus: leaf)."""
    nm = name.lower()
    if nm not in ("gauss", "moffat"):
        return None
    if param is None:
        param = 10
    x = np.arange(size, dtype=float) - (size // 2)
    if ndim == 1:
        r2 = x ** 2 / float(param) ** 2
    else:
        X, Y = np.meshgrid(x, x)
        r2 = X ** 2 / float(param) ** 2 + Y ** 2 / float(param) ** 2
    w = np.exp(-0.5 * r2) if nm == "gauss" else 1.0 / (1.0 + r2)
    return w / w.sum()


def doc_defocus(size, R, ndim, centre):
    """Documented out-of-focus PSF of radius R: the uniform CLOSED disc {p : |p - centre|^2 <= R^2} (a pixel at distance
    exactly R belongs to a blur of radius R), normalised.  Written independently of the code; `centre` is a parameter
    because the code centres the disc one entry off the kernel centre (known finding ...:PSF:defocus:off-centre)."""
    if R is None:
        R = 10
    if R == 0:
        return None
    i = np.arange(size, dtype=float)
    if ndim == 1:
        d2 = (i - centre) ** 2
    else:
        d2 = np.add.outer((i - centre) ** 2, (i - centre) ** 2)
    m = (d2 <= float(R) ** 2).astype(float)
    return m / m.sum() if m.sum() > 0 else None


def defocus_oracle(ctx, name, desc, Pimpl, size, R, ndim):
    """(disc)  the PSF is a uniform closed disc of radius R about SOME integer centre, normalised;
       (centre) ... about the entry size//2 on which the convolution centres the kernel (fails on the unchanged tree: known finding)"""
    Pimpl = np.asarray(Pimpl, dtype=float)
    def same(Q):
        return Q is not None and Q.shape == Pimpl.shape and np.allclose(Q, Pimpl, rtol=1e-12, atol=1e-15)
    cands = [c for c in range(-1, size + 1)]
    if not any(same(doc_defocus(size, R, ndim, c)) for c in cands):
        ref = doc_defocus(size, R, ndim, size // 2 - 1)
        ctx.fail(f"{name}:PSF:defocus:disc", desc, "uniform closed disc |p-c|^2 <= PSF_param^2, normalised" + ("" if ref is None else f" ({int(round(1 / ref.max()))} pixels)"),
                 f"{int(np.count_nonzero(Pimpl))} pixels, sum {float(Pimpl.sum())}", "the Defocus PSF is not the uniform disc of radius PSF_param (boundary pixels / weights / normalisation)")
    elif not same(doc_defocus(size, R, ndim, size // 2)):
        ctx.fail(f"{name}:PSF:defocus:off-centre", desc, f"disc centred on entry {size // 2} (the kernel centre of the convolution)", "centred one entry earlier",
                 "the Defocus PSF is centred one sample before the kernel centre: the forward model is the defocus blur combined with a one-sample shift")


def doc_legacy_kernel(name, dim, param):
    """documented legacy kernels in wrapped order (h[0] = centre), functions of the periodic distance min(k, n-k)/n"""
    nm = name.lower()
    k = np.arange(dim)
    g = np.minimum(k, dim - k) / dim
    if nm == "gauss":
        return np.exp(-((10 if param is None else param) * g) ** 2)
    if nm in ("sinc", "prolate"):
        return np.sinc((15 if param is None else param) * g)
    if nm == "vonmises":
        h = np.exp(np.cos(2 * np.pi * g))
        return (h / h[0]) ** (5 if param is None else param)
    return None


def psf_structure_oracle(ctx, key, desc, P):
    """what every Gauss / Moffat PSF must satisfy whatever its formula: normalised, non-negative, peak on the entry
    size//2 on which the convolution centres the kernel, symmetric about it (odd sizes: the whole array)"""
    P = np.asarray(P, dtype=float)
    n = P.shape[0]
    c = n // 2
    probs = []
    if not close(float(P.sum()), 1.0, 1e-12):
        probs.append(f"sum {float(P.sum())}")
    if np.any(P < 0):
        probs.append("negative weight")
    peak = np.unravel_index(int(np.argmax(P)), P.shape)
    if any(int(k) != c for k in peak):
        probs.append(f"peak at {tuple(int(k) for k in peak)}, kernel centre {c}")
    m = min(c, n - 1 - c)
    sl = slice(c - m, c + m + 1)
    Q = P[sl] if P.ndim == 1 else P[sl, sl]
    if not np.allclose(Q, Q[::-1] if P.ndim == 1 else Q[::-1, ::-1], rtol=1e-12, atol=1e-15) or (P.ndim == 2 and not np.allclose(Q, Q.T, rtol=1e-12, atol=1e-15)):
        probs.append("not symmetric about the kernel centre")
    if probs:
        ctx.fail(key, desc, "normalised, non-negative PSF centred on and symmetric about entry size//2", "; ".join(probs),
                 "named PSF is not a centred symmetric normalised blur")


def psf1_leaf(T, dim, psf):
    """custom PSF: as given; Gauss/Moffat: the documented formula (independent of the code); Defocus: leaf of the implementation"""
    if psf[0] == "arr":
        return np.array(psf[1])
    _, name, param, size = psf
    n = size if size is not None else dim
    P = doc_psf(name, n, param, 1)
    if P is not None:
        return P
    if name.lower() != "defocus":
        raise KeyError(name)
    if param is not None and param == 0:                         # the delta branch raises in the pinned code (known finding); no private helper is called here
        raise ZeroDivisionError("Defocus PSF_param = 0")
    return doc_defocus(n, param, 1, n // 2 - 1)                  # documented disc at the centre the code uses


def gen_phantom1(rng, dim):
    if rng.random() < 0.45:
        return ("arr", [float(rng.randint(-3, 6)) for _ in range(dim)])
    nm = rng.choice(PHANTOMS)
    par = None if nm in ("bumps", "pc", "skyscraper") else rng.choice([None, 4, 6])
    return ("name", nm, par)


def make_prior(cuqi, rng, dim, geometry=None):
    from cuqi.distribution import Gaussian, LMRF, GMRF, Laplace
    k = rng.choice(["none", "none", "gauss", "gauss-noname", "lmrf", "gmrf", "laplace", "gauss-z"])
    g = {} if geometry is None else {"geometry": geometry}
    if k == "none":
        return k, None
    if k == "gauss":
        return k, Gaussian(np.ones(dim), 4.0, name="x", **g)
    if k == "gauss-noname":
        return k, Gaussian(np.zeros(dim), 0.25, **g)
    if k == "gauss-z":
        return k, Gaussian(np.zeros(dim), 2.0, name="z", **g)
    if k == "lmrf":
        return k, LMRF(0, 0.5, name="x", **(g if g else {"geometry": dim}))
    if k == "gmrf":
        return k, GMRF(np.zeros(dim), 2.0, name="x", **g)
    return k, Laplace(np.zeros(dim), 1.0, name="x", **g)


def case_deconv1d(ctx, cuqi, T, B1, B2, cfg, sid):
    from cuqi.testproblem import Deconvolution1D
    dim, psf, bc, ph, ntype, nstd, legacy = cfg["dim"], cfg["psf"], cfg["bc"], cfg["phantom"], cfg["noise_type"], cfg["noise_std"], cfg.get("legacy", False)
    desc = {"problem": "Deconvolution1D", **{k: (v if not isinstance(v, tuple) else list(v)) for k, v in cfg.items() if k != "prior"}, "prior": cfg["prior"][0]}
    kw = dict(dim=dim, BC=bc, noise_type=ntype, noise_std=nstd, prior=cfg["prior"][1])
    dt = cfg.get("dtype", "float64")
    psf_dt = "int64" if (dt == "bool" or (legacy and dt in ("uint8", "int8", "uint16"))) else dt
    kw["PSF"] = np.array(psf[1]).astype(psf_dt) if psf[0] == "arr" else psf[1]
    if psf[0] == "name":
        kw["PSF_param"], kw["PSF_size"] = psf[2], psf[3]
    kw["phantom"] = np.array(ph[1]).astype(dt) if ph[0] == "arr" else ph[1]
    for k_ in ("PSF", "phantom"):
        if isinstance(kw[k_], np.ndarray):
            kw[k_] = relayout(kw[k_], cfg.get("layout"))
    caller = dict(kw)
    if cfg["prior"][1] is not None and isinstance(getattr(cfg["prior"][1], "mean", None), np.ndarray):
        caller["prior.mean"] = cfg["prior"][1].mean
    before = snap_arrays(caller)
    if ph[0] == "name":
        kw["phantom_param"] = ph[2]
    if legacy:
        kw["use_legacy"] = True
    with scripted(sid) as S, quiet():
        try:
            tp = Deconvolution1D(**kw)
            err = None
        except Exception as e:
            tp, err = None, f"{type(e).__name__}: {str(e)[:80]}"
    if tp is not None:
        retain_tp("Deconvolution1D", tp)
    # leaves
    # the STATED phantom: a user array as given; a named phantom from the model (square/hat/pc/skyscraper, exact) or the
    # documented formula written in the harness — never from `_getExactSolution`
    x_leaf = None
    if ph[0] == "arr":
        x_leaf = np.array(ph[1]).astype(cfg.get("dtype", "float64")).astype(float)
    else:
        st_ = STATED["phantoms"].get(dim, ph[1], ph[2]) if STATED.get("phantoms") is not None else None
        ctx.extra_cov.setdefault("stated_phantom", {}).setdefault(f"{ph[1].lower()}:{'none' if st_ is None else st_[0]}", 0)
        ctx.extra_cov["stated_phantom"][f"{ph[1].lower()}:{'none' if st_ is None else st_[0]}"] += 1
        if st_ is not None and st_[0] == "ok":
            x_leaf = np.array(st_[1], dtype=float)
            if st_[2] and tp is not None:          # a mesh node exactly on a threshold: float rounding may decide either way
                xi_ = A1(tp.exactSolution)
                for i_, alts_ in st_[2].items():
                    if i_ < xi_.size and any(abs(xi_[i_] - a_) <= 1e-15 for a_ in alts_):
                        x_leaf[i_] = xi_[i_]
        elif st_ is not None and st_[0] == "nan":
            x_leaf = np.full(dim, np.nan)
            if tp is not None and not np.any(np.isnan(A1(tp.exactSolution))):
                ctx.disagree("tie:Deconvolution1D:phantom:nan", desc, "a phantom containing 0/0", list(A1(tp.exactSolution)[:8]), "model: the phantom contains NaN")
                ctx.fail("tie:Deconvolution1D:phantom:nan", desc, "the stated phantom", list(A1(tp.exactSolution)[:8]), "exactSolution is not the stated phantom")
        elif st_ is not None and st_[0] == "raises" and tp is not None:
            pass        # handled below: a constructed problem with x_leaf None is reported as an accepted undocumented option
    if x_leaf is not None and len(x_leaf) == dim and not np.all(np.isfinite(x_leaf)):
        ctx.case("deconv1d-nan-phantom", desc, nontrivial=False)
        ctx.note(f"phantom leaf has non-finite entries (degenerate size), skipped: dim={dim} phantom={ph}")
        return
    if legacy:
        return case_legacy(ctx, B1, B2, cfg, desc, tp, err, S, x_leaf, sid)
    try:
        with quiet():
            P = psf1_leaf(T, dim, psf)
    except Exception:
        P = None
    if x_leaf is not None and len(x_leaf) == dim and not np.all(np.isfinite(x_leaf)):
        ctx.case("deconv1d-nan-phantom", desc, nontrivial=False)
        ctx.note(f"phantom leaf has non-finite entries (degenerate size), skipped: dim={dim} phantom={ph}")
        return
    if P is None and psf[0] == "name" and psf[1].lower() == "defocus" and psf[2] == 0:
        ctx.case("deconv1d-psf-refusal", desc, nontrivial=False)
        ctx.fail("Deconvolution1D:PSF:defocus:param0", desc, "the delta PSF (identity blur) announced in _DefocusPSF_1D", err,
                 "PSF='Defocus' with PSF_param=0 raises instead of giving the delta PSF")
        return
    if P is None or x_leaf is None or len(x_leaf) != dim:
        ctx.case("deconv1d-refusal", desc, nontrivial=False)
        if tp is not None:
            what = "PSF" if P is None else "phantom"
            ctx.disagree(f"tie:Deconvolution1D:refusal:{what}", desc, "refusal", "constructed", f"unknown / ill-shaped {what} accepted")
            ctx.fail(f"tie:Deconvolution1D:refusal:{what}", desc, f"an error for an undocumented {what} option", "constructed",
                     f"the constructor accepts a {what} option that is not one of the documented names / shapes")
        return
    if psf[0] == "name" and psf[1].lower() == "defocus":
        n_ = psf[3] if psf[3] is not None else dim
        with quiet():
            try:
                Pimpl = np.asarray(getattr(T, "_DefocusPSF_1D")(n_, psf[2])[0], dtype=float)
            except Exception:
                Pimpl = None
        if Pimpl is not None:
            defocus_oracle(ctx, "Deconvolution1D", desc, Pimpl, n_, psf[2], 1)
    if psf[0] == "name" and psf[1].lower() in ("gauss", "moffat"):
        with quiet():
            try:
                Pimpl = np.asarray({"gauss": T._GaussPSF_1D, "moffat": T._MoffatPSF_1D}[psf[1].lower()](psf[3] if psf[3] is not None else dim, psf[2])[0], dtype=float)
            except Exception as e:
                Pimpl = None
        if Pimpl is not None:
            kpsf = f"Deconvolution1D:PSF:{psf[1].lower()}"
            psf_structure_oracle(ctx, kpsf + ":structure", desc, Pimpl)
            if Pimpl.shape != P.shape or not np.allclose(Pimpl, P, rtol=1e-12, atol=1e-15):
                ctx.fail(kpsf + ":formula", desc, list(P[:7]), list(Pimpl[:7]), "named PSF is not the documented profile centred on entry size//2")
    cls = sym_class(P)
    kbase = f"Deconvolution1D:operator"
    lines = [f"dc1 {bc} {dim} {qv(P)}", f"dc1x {bc} {dim} {qv(P)} {qv(x_leaf)}"]
    yref_holder = [np.zeros(0)]

    def cb(outs):
        ctx.case("deconv1d", desc, nontrivial=(len(P) > 1))
        ctx.extra_cov.setdefault("deconv1d_bc", {}).setdefault(bc.lower(), 0)
        ctx.extra_cov["deconv1d_bc"][bc.lower()] += 1
        if outs[0] == "err":
            if tp is not None:
                ctx.disagree("tie:Deconvolution1D:refusal", desc, "err", "constructed", "model refuses the boundary condition")
                ctx.fail("tie:Deconvolution1D:refusal", desc, "ValueError for an unknown BC", "constructed")
            return
        r0, r1 = kv(outs[0]), kv(outs[1])
        Aasm, Adoc = fmat(r0["asm"], dim), fmat(r0["doc"], dim)
        yasm, ydoc = fvec(r1["asm"]), fvec(r1["doc"])
        yref_holder[0] = yasm
        scaled = {"gaussian": False, "scaledgaussian": True}.get(ntype.lower())
        if tp is None:
            # refusals: unknown noise type, zero variance of the scaled noise
            if scaled is None:
                if "NotImplementedError" not in err:
                    ctx.disagree("tie:Deconvolution1D:refusal", desc, "NotImplementedError", err)
                    ctx.fail("tie:Deconvolution1D:refusal", desc, "NotImplementedError", err)
                return
            B2.add([f"noise {ntype} {q(nstd)} {r1['asm']} {qv(np.ones(dim))}"], lambda o: cb_refused(o))
            return
        A = dense(tp.model.get_matrix())
        if psf[0] == "arr":
            # entrywise rounding bound 4*eps*(sum of |weights| landing on the entry), from scipy called directly on |P|
            from scipy.ndimage import convolve1d as _c1
            mode = {"zero": "constant", "periodic": "wrap", "mirror": "mirror", "reflect": "reflect", "nearest": "nearest"}[bc.lower()]
            Sabs = np.array([_c1(e, np.abs(P), mode=mode) for e in np.eye(dim)])
            tol, tolT = 4 * np.finfo(float).eps * Sabs, 4 * np.finfo(float).eps * Sabs.T
        else:
            tol = tolT = 1e-12
        # --- tie: stored matrix and forward on unit vectors
        if not meq(A, Aasm, tol):
            ctx.disagree("tie:Deconvolution1D:matrix", desc, r0["asm"][:200], str(A.tolist())[:200], "stored matrix")
            if not meq(A, Adoc, tolT):
                ctx.fail("tie:Deconvolution1D:matrix", desc, r0["doc"][:200], str(A.tolist())[:200], "matrix is neither the modelled assembly nor the documented operator")
        with quiet():
            F = np.column_stack([A1(tp.model.forward(e)) for e in np.eye(dim)])
        if not meq(F, Aasm, tol):
            ctx.disagree("tie:Deconvolution1D:forward", desc, r0["asm"][:200], str(F.tolist())[:200], "forward on unit vectors")
            if not meq(F, Adoc, tolT):
                ctx.fail("tie:Deconvolution1D:forward", desc, r0["doc"][:200], str(F.tolist())[:200], "forward is not the documented convolution")
        # --- oracle: forward model = documented operator
        if not meq(F, Adoc, tolT):
            k = f"{kbase}:transposed:BC={bc.lower()}:{cls}" if meq(F, Adoc.T, tol) else f"{kbase}:wrong:BC={bc.lower()}:{cls}"
            ctx.fail(k, desc, r0["doc"][:200], str(F.tolist())[:200], "forward model is not the documented convolution (stated PSF, stated BC)")
            ctx.extra_cov.setdefault("deconv1d_operator", {}).setdefault("differs", 0)
            ctx.extra_cov["deconv1d_operator"]["differs"] += 1
        else:
            ctx.extra_cov.setdefault("deconv1d_operator", {}).setdefault("equal", 0)
            ctx.extra_cov["deconv1d_operator"]["equal"] += 1
        caller_objects_check(ctx, "Deconvolution1D", desc, caller, before, "construction+forward")
        alias_check(ctx, "Deconvolution1D", desc, tp)
        # --- exact solution / exact data
        xs = A1(tp.exactSolution)
        if not vrel(xs, x_leaf, 1e-12):
            ctx.fail("Deconvolution1D:exactSolution", desc, list(x_leaf[:6]), list(xs[:6]), "exactSolution is not the stated phantom")
        ye = A1(tp.exactData)
        if not vrel(ye, yasm, 1e-10):
            ctx.disagree("tie:Deconvolution1D:exactData", desc, r1["asm"][:200], list(ye[:8]), "exactData")
        with quiet():
            yf = A1(tp.model.forward(tp.exactSolution))
        if not vrel(ye, yf, 1e-12):
            ctx.fail("Deconvolution1D:exactData", desc, list(yf[:8]), list(ye[:8]), "exactData is not model.forward(exactSolution)")
            if not vrel(ye, yasm, 1e-10):
                ctx.fail("tie:Deconvolution1D:exactData", desc, list(yf[:8]), list(ye[:8]), "exactData is not model.forward(exactSolution)")
        elif not vrel(ye, yasm, 1e-10):
            ctx.fail("tie:Deconvolution1D:exactData", desc, list(ydoc[:8]), list(ye[:8]), "exactData differs from the modelled operator applied to the phantom") if not vrel(ye, ydoc, 1e-10) else None
        # --- info string
        B2.add([f"cap {ntype}"], lambda o: cb_info(o))
        # --- noise
        xi = S.calls[0][1].ravel() if (len(S.calls) == 1 and S.calls[0][1].size == dim) else np.ones(dim)
        if finite_guard(ctx, "Deconvolution1D", desc, "exactData", ye):
            B2.add([f"noise {ntype} {q(nstd)} {qv(ye)} {qv(xi)}"], lambda o: cb_noise(o, ye, xi))
        # --- likelihood covariance, logd, components
        cov_stated = (np.full(dim, nstd ** 2) if not scaled else (ye * nstd) ** 2)
        cov_impl = np.asarray(tp.likelihood.distribution.cov, dtype=float).ravel()
        if not vrel(np.broadcast_to(cov_impl, (dim,)) if cov_impl.size in (1, dim) else cov_impl, cov_stated, 1e-12):
            ctx.fail("Deconvolution1D:likelihood:cov", desc, list(cov_stated[:6]), list(cov_impl[:6]), "likelihood covariance is not the stated noise level")
        rs = np.random.RandomState(sid + 7)
        check_logd(ctx, B2, "Deconvolution1D", tp, desc, cov_stated, lambda x: Aasm @ x, rs)
        check_components(ctx, B2, "Deconvolution1D", tp, desc)

    def cb_info(o):
        want = f"Noise type: Additive {o[0]} with std: {nstd}"
        if tp.infoString != want:
            ctx.disagree("tie:Deconvolution1D:infoString", desc, want, tp.infoString)
            ctx.fail("tie:Deconvolution1D:infoString", desc, want, tp.infoString, "infoString does not state the noise type and level used")

    def cb_refused(o):
        ctx.case("deconv1d-noise-refusal", desc)
        ym = np.abs(yref_holder[0])
        numerically_zero = "infs or NaNs" in (err or "") and ym.size and float(ym.min()) <= 1e-12 * float(ym.max())
        if o[0] == "err:zero-cov" or numerically_zero:
            ctx.fail("Deconvolution1D:noise:scaledgaussian:zero-exact-data", desc, "data = exactData where exactData = 0 (zero noise level)", err,
                     "scaled Gaussian noise with an exactly zero exact datum: the constructor raises instead of producing data")
        else:
            ctx.disagree("tie:Deconvolution1D:refusal", desc, o[0][:80], err, "constructor raised where the model produces data")
            ctx.fail("tie:Deconvolution1D:refusal", desc, "a constructed problem", err, "constructor raised for a documented option combination")

    def cb_noise(o, ye, xi):
        ctx.case("deconv1d-noise", {**desc, "check": "noise"})
        scaled = ntype.lower() == "scaledgaussian"
        std = np.abs(ye * nstd) if scaled else np.full(dim, abs(nstd))
        key = f"Deconvolution1D:noise:{ntype.lower()}"
        data = A1(tp.data)
        if o[0].startswith("err"):
            ctx.disagree("tie:" + key, desc, o[0], "constructed", "model refuses (zero variance) but the code produced data")
            if not np.all(np.isfinite(data)):
                ctx.fail("tie:" + key, desc, "finite data", list(data[:6]), "data contain non-finite values")
            else:
                stated_noise_oracle(ctx, "tie:" + key, desc, data, ye, std, S, "randn")
            return
        r = kv(o[0])
        if not vrel(data, fvec(r["path"]), 1e-9):
            ctx.disagree("tie:" + key, desc, r["path"][:160], list(data[:6]), "data vs modelled sampling path")
            if vrel(data, fvec(r["doc"]), 1e-9):
                ctx.note("data agree with the documented form but not with the sampling path model")
            else:
                ctx.fail("tie:" + key, desc, r["doc"][:160], list(data[:6]), "data are not exactData + stated noise")
        stated_noise_oracle(ctx, key, desc, data, ye, std, S, "randn")

    B1.add(lines, cb)


def case_legacy(ctx, B1, B2, cfg, desc, tp, err, S, x_leaf, sid):
    dim, psf, bc, ntype, nstd = cfg["dim"], cfg["psf"], cfg["bc"], cfg["noise_type"], cfg["noise_std"]
    ctx.case("deconv1d-legacy", desc)
    custom = psf[0] == "arr"
    expect_err = (bc != "periodic") or (psf[0] == "name" and psf[3] is not None) or dim % 2 == 1 or (custom and len(psf[1]) != dim) \
        or (not custom and psf[1].lower() not in ("gauss", "sinc", "prolate", "vonmises"))
    if tp is None:
        if not expect_err and "array must not contain" not in (err or ""):
            ctx.disagree("tie:Deconvolution1D:legacy:refusal", desc, "constructed", err)
            ctx.fail("tie:Deconvolution1D:legacy:refusal", desc, "a constructed problem", err, "legacy constructor raised for a documented option combination")
        return
    if expect_err:
        ctx.disagree("tie:Deconvolution1D:legacy:refusal", desc, "err", "constructed")
        ctx.fail("tie:Deconvolution1D:legacy:refusal", desc, "refusal (odd dim / BC / PSF_size / PSF length)", "constructed")
        return
    A = dense(tp.model.get_matrix())
    if custom:
        lines = [f"leg {dim} {qv(psf[1])}"]
        cls = "sym" if all(psf[1][(dim // 2 + d) % dim] == psf[1][(dim // 2 - d) % dim] for d in range(dim)) else "asym"
    else:
        hdoc = doc_legacy_kernel(psf[1], dim, psf[2])
        lines = [f"legh {dim} {qv(hdoc)}"]         # named kernel: documented formula, independent of the code
        cls = "named"

    def cb(outs):
        if outs[0] == "err":
            ctx.disagree("tie:Deconvolution1D:legacy:refusal", desc, "err", "constructed")
            ctx.fail("tie:Deconvolution1D:legacy:refusal", desc, "refusal", "constructed")
            return
        r = kv(outs[0])
        Aasm, Adoc = fmat(r["asm"], dim), fmat(r["doc"], dim)
        tol = np.zeros((dim, dim)) if custom else 1e-12
        if not meq(A, Aasm, tol):
            ctx.disagree("tie:Deconvolution1D:legacy:matrix", desc, r["asm"][:200], str(A.tolist())[:200])
            if not meq(A, Adoc, tol):
                ctx.fail("tie:Deconvolution1D:legacy:matrix", desc, r["doc"][:200], str(A.tolist())[:200], "legacy matrix is not the documented circulant")
        with quiet():
            F = np.column_stack([A1(tp.model.forward(e)) for e in np.eye(dim)])
        if not meq(F, Aasm, tol):
            ctx.disagree("tie:Deconvolution1D:legacy:forward", desc, r["asm"][:200], str(F.tolist())[:200], "forward on unit vectors")
            if not meq(F, Adoc, tol):
                ctx.fail("tie:Deconvolution1D:legacy:forward", desc, r["doc"][:200], str(F.tolist())[:200], "legacy forward is not the documented circulant")
        if not meq(F, Adoc, tol):
            k = "transposed" if meq(F, Adoc.T, tol) else "wrong"
            ctx.fail(f"Deconvolution1D:legacy:operator:{k}:{cls}", desc, r["doc"][:200], str(F.tolist())[:200],
                     "legacy forward model is not the periodic convolution with the stated PSF")
        ye = A1(tp.exactData)
        with quiet():
            yf = A1(tp.model.forward(tp.exactSolution))
        if not vrel(ye, yf, 1e-12) or not vrel(ye, Aasm @ A1(tp.exactSolution), 1e-10):
            ctx.disagree("tie:Deconvolution1D:legacy:exactData", desc, list((Aasm @ A1(tp.exactSolution))[:6]), list(ye[:6]))
            ctx.fail("tie:Deconvolution1D:legacy:exactData", desc, list(yf[:6]), list(ye[:6]), "exactData is not model.forward(exactSolution)")
        if x_leaf is not None and not vclose(A1(tp.exactSolution), x_leaf, 1e-12):
            ctx.fail("Deconvolution1D:exactSolution", desc, list(x_leaf[:6]), list(A1(tp.exactSolution)[:6]), "exactSolution is not the stated phantom")
        scaled = ntype.lower() == "scaledgaussian"
        std = np.abs(ye * nstd) if scaled else np.full(dim, abs(nstd))
        stated_noise_oracle(ctx, f"Deconvolution1D:legacy:noise:{ntype.lower()}", desc, A1(tp.data), ye, std, S, "randn")
        cov_stated = std ** 2
        rs = np.random.RandomState(sid + 7)
        check_logd(ctx, B2, "Deconvolution1D", tp, desc, cov_stated, lambda x: Aasm @ x, rs)
        check_components(ctx, B2, "Deconvolution1D", tp, desc)

    B1.add(lines, cb)


# ----------------------------------------------------------------------------- Deconvolution2D
BC2 = ["zero", "periodic", "neumann", "mirror", "nearest"]


def gen_psf2(rng):
    if rng.random() < 0.6:
        s = rng.choice([1, 2, 3, 3, 3, 4])
        if rng.random() < 0.4 and s % 2 == 1:
            h = s // 2
            qd = [[rng.randint(0, 4) for _ in range(h + 1)] for _ in range(h + 1)]
            P = [[qd[min(a, s - 1 - a)][min(b, s - 1 - b)] for b in range(s)] for a in range(s)]
            P[h][h] += 1
        else:
            lo = -3 if rng.random() < 0.4 else 0
            P = [[rng.randint(lo, 5) for _ in range(s)] for _ in range(s)]
            P[0][0] += 1 if P[0][0] >= 0 else -1
        return ("arr", [[float(v) for v in r] for r in P])
    return ("name", rng.choice(["Gauss", "Moffat", "Defocus", "gauss"]), rng.choice([1.0, 2.56, 0.75]), rng.choice([3, 4, 5]))


def case_deconv2d(ctx, cuqi, T, B1, B2, cfg, sid):
    from cuqi.testproblem import Deconvolution2D
    dim, psf, bc, ph, ntype, nstd = cfg["dim"], cfg["psf"], cfg["bc"], cfg["phantom"], cfg["noise_type"], cfg["noise_std"]
    desc = {"problem": "Deconvolution2D", **{k: (v if not isinstance(v, tuple) else list(v)) for k, v in cfg.items() if k != "prior"}, "prior": cfg["prior"][0]}
    kw = dict(dim=dim, BC=bc, noise_type=ntype, noise_std=nstd, prior=cfg["prior"][1])
    if psf[0] == "arr":
        kw["PSF"] = np.array(psf[1])
    else:
        kw["PSF"], kw["PSF_param"], kw["PSF_size"] = psf[1], psf[2], psf[3]
    dt = cfg.get("dtype", "float64")
    kw["phantom"] = np.array(ph[1]).reshape(dim, dim).astype(dt) if ph[0] == "arr" else ph[1]
    for k_ in ("PSF", "phantom"):
        if isinstance(kw[k_], np.ndarray):
            kw[k_] = relayout(kw[k_], cfg.get("layout"))
    if psf[0] == "arr" and dt.startswith("int"):     # (a float32 PSF makes scipy's fftconvolve work in single precision: ~1e-8, observation)
        kw["PSF"] = kw["PSF"].astype(dt)
    caller = dict(kw)
    if cfg["prior"][1] is not None and isinstance(getattr(cfg["prior"][1], "mean", None), np.ndarray):
        caller["prior.mean"] = cfg["prior"][1].mean
    before = snap_arrays(caller)
    with scripted(sid) as S, quiet():
        try:
            tp = Deconvolution2D(**kw)
            err = None
        except Exception as e:
            tp, err = None, f"{type(e).__name__}: {str(e)[:80]}"
    if tp is not None:
        retain_tp("Deconvolution2D", tp)
    unknown = [w for w, bad in (("PSF", psf[0] == "name" and psf[1].lower() not in ("gauss", "moffat", "defocus")),
                                ("phantom", ph[0] == "name" and not hasattr(cuqi.data, ph[1].lower().replace("-", "_")))) if bad]
    if unknown:
        ctx.case("deconv2d-refusal", desc, nontrivial=False)
        if tp is not None:
            ctx.disagree(f"tie:Deconvolution2D:refusal:{unknown[0]}", desc, "refusal", "constructed")
            ctx.fail(f"tie:Deconvolution2D:refusal:{unknown[0]}", desc, f"an error for an undocumented {unknown[0]} name", "constructed",
                     f"the constructor accepts a {unknown[0]} name that is not documented")
        return
    with quiet():
        if psf[0] == "arr":
            P = np.array(psf[1])
        else:
            f = {"gauss": lambda s, p: T._GaussPSF(np.array([s, s]), p), "moffat": lambda s, p: T._MoffatPSF(np.array([s, s]), p, 1),
                 "defocus": lambda s, p: T._DefocusPSF(np.array([s, s]), p)}[psf[1].lower()]
            try:
                # the PSF the problem uses: the public Miscellaneous['PSF'] of the constructed problem; the private builder only as a fallback
                if tp is not None and isinstance(getattr(tp, "Miscellaneous", None), dict) and isinstance(tp.Miscellaneous.get("PSF"), np.ndarray):
                    Pimpl = np.asarray(tp.Miscellaneous["PSF"], dtype=float)
                elif tp is None and err is not None and psf[1].lower() == "defocus" and psf[2] == 0:
                    raise RuntimeError(err)
                else:
                    Pimpl = np.asarray(f(psf[3], psf[2])[0], dtype=float)
                P = doc_psf(psf[1], psf[3], psf[2], 2)
                if P is None:                      # Defocus: documented closed disc at the centre the code uses
                    P = doc_defocus(psf[3], psf[2], 2, psf[3] // 2 - 1)
                    defocus_oracle(ctx, "Deconvolution2D", desc, Pimpl, psf[3], psf[2], 2)
                    if P is None:
                        P = Pimpl
                else:
                    kpsf = f"Deconvolution2D:PSF:{psf[1].lower()}"
                    psf_structure_oracle(ctx, kpsf + ":structure", desc, Pimpl)
                    if Pimpl.shape != P.shape or not np.allclose(Pimpl, P, rtol=1e-12, atol=1e-15):
                        ctx.fail(kpsf + ":formula", desc, str(P.tolist())[:120], str(Pimpl.tolist())[:120], "named PSF is not the documented profile centred on entry size//2")
            except Exception as e:
                ctx.case("deconv2d-psf-refusal", desc, nontrivial=False)
                if psf[1].lower() == "defocus" and psf[2] == 0:
                    ctx.fail("Deconvolution2D:PSF:defocus:param0", desc, "the delta PSF (identity blur) announced in _DefocusPSF", f"{type(e).__name__}: {str(e)[:60]}",
                             "PSF='Defocus' with PSF_param=0 raises instead of giving the delta PSF")
                else:
                    ctx.note(f"2-D PSF leaf could not be formed at {desc}: {repr(e)[:80]}")
                return
        x_leaf = np.array(ph[1], dtype=float) if ph[0] == "arr" else np.asarray(getattr(cuqi.data, ph[1])(size=dim), dtype=float).flatten()
    cls = sym_class(P)
    n2 = dim * dim
    # a float32 image makes np.pad/fftconvolve work in single precision (observation in docs): compare at that precision
    ytol = 1e-6 if cfg.get("dtype") == "float32" else 1e-9
    if not (np.all(np.isfinite(x_leaf)) and np.all(np.isfinite(P))):
        ctx.case("deconv2d-nonfinite-leaf", desc, nontrivial=False)
        ctx.note(f"2-D phantom / PSF leaf non-finite, skipped: {desc}")
        return
    lines = [f"dc2m {bc} {dim} {qm(P)}", f"dc2 {bc} {dim} {qm(P)} {qv(x_leaf)}"]
    yref_holder = [np.zeros(0)]

    def cb(outs):
        ctx.case("deconv2d", desc, nontrivial=(P.shape[0] > 1))
        if outs[0].startswith("err"):
            if tp is not None:
                ctx.disagree("tie:Deconvolution2D:refusal", desc, outs[0], "constructed")
                ctx.fail("tie:Deconvolution2D:refusal", desc, "refusal", "constructed")
            return
        r0 = kv(outs[0])
        Aasm, Adoc = fmat(r0["asm"], n2), fmat(r0["doc"], n2)
        ydoc = fvec(outs[1])
        yref_holder[0] = ydoc
        scaled = {"gaussian": False, "scaledgaussian": True}.get(ntype.lower())
        if tp is None:
            if scaled is None:
                if "NotImplementedError" not in err:
                    ctx.disagree("tie:Deconvolution2D:refusal", desc, "NotImplementedError", err)
                    ctx.fail("tie:Deconvolution2D:refusal", desc, "NotImplementedError", err)
                return
            B2.add([f"noise {ntype} {q(nstd)} {outs[1]} {qv(np.ones(n2))}"], lambda o: cb_refused(o))
            return
        with quiet():
            F = np.column_stack([A1(tp.model.forward(e)) for e in np.eye(n2)])
        if not mclose(F, Aasm, 1e-11):
            ctx.disagree("tie:Deconvolution2D:forward", desc, r0["asm"][:200], str(F.tolist())[:200], "forward on unit images")
            if not mclose(F, Adoc, 1e-11):
                ctx.fail("tie:Deconvolution2D:forward", desc, r0["doc"][:200], str(F.tolist())[:200], "forward is not the documented 2-D convolution")
        if not mclose(F, Adoc, 1e-11):
            k = "transposed" if mclose(F, Adoc.T, 1e-11) else "wrong"
            ctx.fail(f"Deconvolution2D:operator:{k}:BC={bc.lower()}:{cls}", desc, r0["doc"][:200], str(F.tolist())[:200],
                     "forward model is not the documented 2-D convolution (stated PSF, stated BC)")
        caller_objects_check(ctx, "Deconvolution2D", desc, caller, before, "construction+forward")
        alias_check(ctx, "Deconvolution2D", desc, tp)
        xs = A1(tp.exactSolution)
        if not vrel(xs, x_leaf, 1e-9):
            ctx.fail("Deconvolution2D:exactSolution", desc, list(x_leaf[:6]), list(xs[:6]), "exactSolution is not the stated phantom")
        ye = A1(tp.exactData)
        if not vrel(ye, ydoc, ytol):
            ctx.disagree("tie:Deconvolution2D:exactData", desc, outs[1][:160], list(ye[:8]), "exactData vs documented convolution of the phantom")
        with quiet():
            yf = A1(tp.model.forward(tp.exactSolution))
        if not vrel(ye, yf, 1e-11):
            ctx.fail("Deconvolution2D:exactData", desc, list(yf[:8]), list(ye[:8]), "exactData is not model.forward(exactSolution)")
            if not vrel(ye, ydoc, ytol):
                ctx.fail("tie:Deconvolution2D:exactData", desc, list(yf[:8]), list(ye[:8]), "exactData is not model.forward(exactSolution)")
        elif not vrel(ye, ydoc, ytol):
            ctx.fail("tie:Deconvolution2D:exactData", desc, outs[1][:160], list(ye[:8]), "exactData is not the documented convolution of the phantom")
        # Miscellaneous
        misc = getattr(tp, "Miscellaneous", None) or {}
        if "PSF" not in misc or np.asarray(misc["PSF"]).shape != P.shape or not np.allclose(np.asarray(misc["PSF"], dtype=float), P, rtol=1e-12, atol=1e-15):
            ctx.fail("Deconvolution2D:Miscellaneous", desc, "the PSF used", str(misc.get("PSF"))[:100], "Miscellaneous['PSF'] is not the PSF of the model")
        want = f"Noise type: Additive {ntype.capitalize()} with std: {nstd}"
        B2.add([f"cap {ntype}"], lambda o: (ctx.disagree("tie:Deconvolution2D:infoString", desc, o[0], tp.infoString),
                                           ctx.fail("tie:Deconvolution2D:infoString", desc, want, tp.infoString, "infoString does not state the noise type and level used"))
               if tp.infoString != f"Noise type: Additive {o[0]} with std: {nstd}" else None)
        xi = S.calls[0][1].ravel() if (len(S.calls) == 1 and S.calls[0][1].size == n2) else np.ones(n2)
        if finite_guard(ctx, "Deconvolution2D", desc, "exactData", ye, inputs_finite=bool(np.all(np.isfinite(x_leaf)))):
            B2.add([f"noise {ntype} {q(nstd)} {qv(ye)} {qv(xi)}"], lambda o: cb_noise(o, ye))
        cov_stated = (np.full(n2, nstd ** 2) if not scaled else (ye * nstd) ** 2)
        cov_impl = np.asarray(tp.likelihood.distribution.cov, dtype=float).ravel()
        if cov_impl.size not in (1, n2) or not vrel(np.broadcast_to(cov_impl, (n2,)), cov_stated, 1e-12):
            ctx.fail("Deconvolution2D:likelihood:cov", desc, list(cov_stated[:6]), list(cov_impl[:6]), "likelihood covariance is not the stated noise level")
        rs = np.random.RandomState(sid + 7)
        check_logd(ctx, B2, "Deconvolution2D", tp, desc, cov_stated, lambda x: Aasm @ x, rs, npts=1)
        check_components(ctx, B2, "Deconvolution2D", tp, desc)

    def cb_refused(o):
        ctx.case("deconv2d-noise-refusal", desc)
        ym = np.abs(yref_holder[0])
        numerically_zero = "infs or NaNs" in (err or "") and ym.size and float(ym.min()) <= 1e-12 * float(ym.max())
        if o[0] == "err:zero-cov" or numerically_zero:
            ctx.fail("Deconvolution2D:noise:scaledgaussian:zero-exact-data", desc, "data = exactData where exactData = 0 (zero noise level)", err,
                     "scaled Gaussian noise with an exactly zero exact datum: the constructor raises instead of producing data")
        else:
            ctx.disagree("tie:Deconvolution2D:refusal", desc, o[0][:80], err, "constructor raised where the model produces data")
            ctx.fail("tie:Deconvolution2D:refusal", desc, "a constructed problem", err, "constructor raised for a documented option combination")

    def cb_noise(o, ye):
        ctx.case("deconv2d-noise", {**desc, "check": "noise"})
        scaled = ntype.lower() == "scaledgaussian"
        std = np.abs(ye * nstd) if scaled else np.full(n2, abs(nstd))
        key = f"Deconvolution2D:noise:{ntype.lower()}"
        data = A1(tp.data)
        if o[0].startswith("err"):
            ctx.disagree("tie:" + key, desc, o[0], "constructed", "model refuses (zero variance) but the code produced data")
            if not np.all(np.isfinite(data)):
                ctx.fail("tie:" + key, desc, "finite data", list(data[:6]), "data contain non-finite values")
            else:
                stated_noise_oracle(ctx, "tie:" + key, desc, data, ye, std, S, "randn")
            return
        r = kv(o[0])
        if not vrel(data, fvec(r["path"]), 1e-9):
            ctx.disagree("tie:" + key, desc, r["path"][:160], list(data[:6]), "data vs modelled sampling path")
            if not vrel(data, fvec(r["doc"]), 1e-9):
                ctx.fail("tie:" + key, desc, r["doc"][:160], list(data[:6]), "data are not exactData + stated noise")
        stated_noise_oracle(ctx, key, desc, data, ye, std, S, "randn")

    B1.add(lines, cb)


# ----------------------------------------------------------------------------- Poisson1D / Heat1D / Abel1D
def gen_field(rng, dim, allow_kl=True):
    r = rng.random()
    if r < 0.4:
        return ("none",)
    if r < 0.55:
        return ("step", rng.choice([s for s in (1, 2, 3) if s <= dim]))
    if r < 0.67 and allow_kl and dim >= 4:
        return ("kl", rng.choice([2, 3]))
    if r < 0.77:
        return ("map-exp",)
    # field_type given as a Geometry OBJECT, with and without map/imap; string field types combined with a map
    k = rng.choice(["geom-cont", "geom-cont+map", "geom-step", "geom-step+map", "step+map", "kl+map"])
    if k == "kl+map" and not (allow_kl and dim >= 4):
        k = "geom-cont+map"
    if "step" in k:
        return (k, rng.choice([s for s in (1, 2, 3) if s <= dim]))
    if k.startswith("kl"):
        return (k, rng.choice([2, 3]))
    return (k,)


def f_base(field):
    return field[0].split("+")[0]


def f_mapped(field):
    return field[0] == "map-exp" or field[0].endswith("+map")


def field_setup(field, grid, map_names=("map", "imap")):
    """constructor keywords for the stated field options, and the STATED parameter-to-field map written from the
    documentation independently of the constructor: the expansion of the stated type on the stated grid (the geometry
    classes are C13's subject; instantiated here directly, a separate instance from the one handed to the constructor),
    followed by the stated `map` ("an underlying MappedGeometry is created which applies the mapping on the field")."""
    from cuqi.geometry import Continuous1D, StepExpansion, KLExpansion
    base, mapped = f_base(field), f_mapped(field)
    kw = {}
    grid = np.asarray(grid, dtype=float)
    if base == "step":
        kw.update(field_type="Step", field_params={"n_steps": field[1]})
        g = StepExpansion(grid.copy(), n_steps=field[1])
    elif base == "kl":
        kw.update(field_type="KL", field_params={"num_modes": field[1]})
        g = KLExpansion(grid.copy(), num_modes=field[1])
    elif base == "geom-cont":
        kw.update(field_type=Continuous1D(grid.copy()))
        g = None
    elif base == "geom-step":
        kw.update(field_type=StepExpansion(grid.copy(), n_steps=field[1]))
        g = StepExpansion(grid.copy(), n_steps=field[1])
    else:
        g = None
    if mapped:
        kw[map_names[0]] = (lambda x: np.exp(x))
        kw[map_names[1]] = (lambda x: np.log(x))

    def stated(p):
        f = np.asarray(p, dtype=float) if g is None else A1(g.par2fun(np.asarray(p, dtype=float)))
        return np.exp(f) if mapped else f
    return kw, stated


def snr_checks(ctx, B2, name, tp, desc, S, snr, sid, fwd_model, logd_scale=1.0, positive=False):
    """noise of the PDE/Abel problems: sigma = ||exactData||/SNR, data = exactData + sigma*xi"""
    ye = A1(tp.exactData)
    data = A1(tp.data)
    sigma_stated = float(np.linalg.norm(ye)) / snr
    cov_impl = np.asarray(tp.likelihood.distribution.cov, dtype=float).ravel()
    if cov_impl.size != 1 or not close(cov_impl[0], sigma_stated ** 2, 1e-11):
        ctx.fail(f"{name}:likelihood:cov", desc, sigma_stated ** 2, list(cov_impl[:4]), "likelihood variance is not (||exactData||/SNR)^2")
    xi = S.calls[0][1].ravel() if (len(S.calls) == 1 and S.calls[0][1].size == ye.size) else np.ones(ye.size)
    sig_used = math.sqrt(float(cov_impl[0])) if cov_impl.size >= 1 and cov_impl[0] >= 0 else float("nan")

    def cb(o):
        ctx.case("snr-noise", {**desc, "check": "noise"})
        r = kv(o[0])
        key = f"{name}:noise:snr"
        if r.get("ok") != "1":
            ctx.disagree("tie:" + key, desc, "sigma^2 SNR^2 = ||exactData||^2", sig_used, "sigma certificate")
            if not close(sig_used, sigma_stated, 1e-9):
                ctx.fail("tie:" + key, desc, sigma_stated, sig_used, "noise level is not ||exactData||/SNR")
        if not vclose(data, fvec(r["data"]), 1e-9):
            ctx.disagree("tie:" + key, desc, r["data"][:160], list(data[:6]), "data vs exactData + sigma*xi")
            if not vclose(data, ye + sigma_stated * xi, 1e-9):
                ctx.fail("tie:" + key, desc, list((ye + sigma_stated * xi)[:6]), list(data[:6]), "data are not exactData + (||exactData||/SNR) * normal draw")
        stated_noise_oracle(ctx, key, desc, data, ye, np.full(ye.size, sigma_stated), S, "normal")

    xs_ok_ = tp.exactSolution is None or bool(np.all(np.isfinite(A1(tp.exactSolution))))
    if math.isfinite(sig_used) and finite_guard(ctx, name, desc, "exactData", ye, inputs_finite=xs_ok_):
        B2.add([f"snr {q(sig_used)} {q(snr)} 1/1000000000 {qv(ye)} {qv(xi)}"], cb)
    rs = np.random.RandomState(sid + 7)
    check_logd(ctx, B2, name, tp, desc, np.array([sigma_stated ** 2]), fwd_model, rs, npts=2, scale=logd_scale, positive=positive)
    check_components(ctx, B2, name, tp, desc)


def case_poisson(ctx, cuqi, B1, B2, cfg, sid):
    from cuqi.testproblem import Poisson1D
    dim, ep, field, snr, obs, src, xs_custom = cfg["dim"], cfg["endpoint"], cfg["field"], cfg["SNR"], cfg["obs"], cfg["source"], cfg["exactSolution"]
    desc = {"problem": "Poisson1D", **{k: (list(v) if isinstance(v, tuple) else v) for k, v in cfg.items()}}
    N = dim - 1
    with quiet():
        fkw, stated_field = field_setup(field, np.linspace(0, ep, dim, endpoint=True))
    kw = dict(dim=dim, endpoint=ep, SNR=snr, **fkw)
    sources = {"default": None, "const": (lambda xs: 1.0 + 0 * xs), "lin": (lambda xs: 1.0 + 2.0 * xs)}
    if src != "default":
        kw["source"] = sources[src]
    obs_idx = list(range(N))
    if obs != "none":
        kw["observation_grid_map"] = obs_map(obs, ep)
    if xs_custom is not None:
        kw["exactSolution"] = np.array(xs_custom).astype(cfg.get("dtype", "float64"))
    before = snap_arrays(kw)
    with scripted(sid) as S, quiet():
        try:
            tp = Poisson1D(**kw)
            err = None
        except Exception as e:
            tp, err = None, f"{type(e).__name__}: {str(e)[:100]}"
    ctx.case("poisson1d", desc)
    if tp is None:
        ctx.note(f"Poisson1D refused {desc}: {err}")
        return
    retain_tp("Poisson1D", tp)
    # leaf grids, by the code's own expressions (the source is sampled on `grid`, the solution is said to live on
    # `grid_range`; for endpoint != 1 the two differ and neither is the set of nodes of the difference scheme —
    # recorded as an observation in docs/C17.md, the documentation does not fix the nodes)
    dxF = Fraction(ep) / N
    grid = np.linspace(float(dxF), ep, N, endpoint=False)
    grid_range = np.linspace(1. / (dim - 1), ep, dim - 1, endpoint=False)
    if obs == "half":
        obs_idx = [i for i in range(N) if grid_range[i] > ep / 2]
    elif obs == "even":
        obs_idx = list(range(0, N, 2))
    src_f = sources[src] or (lambda xs: 10 * np.exp(-((xs - 0.5) ** 2) / 0.02))
    rhs = np.asarray(src_f(grid), dtype=float)
    rs = np.random.RandomState(sid + 3)
    kappas = [np.round(rs.rand(dim) * 8 + 1) / 2.0 for _ in range(2)]      # positive dyadic conductivities
    xs = A1(tp.exactSolution)
    tests = [("exact", xs)] + [("kappa", k) for k in kappas]
    if not np.all(np.isfinite(xs)):
        ctx.note(f"Poisson1D exactSolution leaf non-finite (field geometry leaves nodes unassigned?), exact-data comparison skipped: {desc}")
        tests[0] = ("exact-nonfinite", kappas[0])
    lines = [f"poisson {N} {q(dxF)} {qv(k)} {qv(rhs)} {','.join(str(i) for i in obs_idx) if obs_idx else '_'}" for _, k in tests]
    obs_s_ = ','.join(str(i) for i in obs_idx) if obs_idx else '_'
    if field[0] == "none":
        # G5: ONE caller-owned buffer, modified in place between evaluations (as when probing the model column by column);
        # afterwards a fresh array holding earlier values.  Every evaluation must be the solution map at the CURRENT values.
        with quiet():
            try:
                xb = kappas[0].copy()
                g0 = A1(tp.model.forward(xb)).copy()
                xb[1] += 0.5
                g1 = A1(tp.model.forward(xb)).copy(); x1 = xb.copy()
                xb[:] = kappas[1]
                g2 = A1(tp.model.forward(xb)).copy()
                g3 = A1(tp.model.forward(x1.copy())).copy()
                xb[:] = kappas[0]; xb[-1] *= 2
                g4 = A1(tp.model.forward(xb, is_par=False)).copy(); x4 = xb.copy()
                for nm_, kv_, g_ in (("inplace-0", kappas[0], g0), ("inplace-1", x1, g1), ("inplace-2", kappas[1], g2), ("inplace-3-fresh", x1, g3), ("inplace-4", x4, g4)):
                    tests.append((nm_, kv_.copy(), None, g_))
                    lines.append(f"poisson {N} {q(dxF)} {qv(kv_)} {qv(rhs)} {obs_s_}")
            except Exception as e:
                ctx.note(f"Poisson in-place history raised at {desc}: {repr(e)[:80]}")
    # forward through parameters (geometry maps are leaves: par2fun of the implementation)
    with quiet():
        p = np.round(rs.randn(tp.model.domain_dim) * 2) / 4.0
        if f_base(field) != "kl" and not f_mapped(field):
            p = np.abs(p) + 0.5
        try:
            # the STATED field of the parameters (stated expansion, then the stated map) — not the implementation's par2fun
            kp = A1(stated_field(p))
            kp_impl = A1(tp.model.domain_geometry.par2fun(p))
            ctx.extra_cov.setdefault("pde_field_kinds", {}).setdefault("Poisson1D:" + field[0], 0)
            ctx.extra_cov["pde_field_kinds"]["Poisson1D:" + field[0]] += 1
            _ext0._mrg(ctx, "field-par2fun(1e-10)", kp_impl, kp, 1e-10)
            if kp_impl.shape != kp.shape or not vclose(kp_impl, kp, 1e-10):
                ctx.fail("Poisson1D:field:par2fun", {**desc, "p": [float(v) for v in p[:6]]}, list(kp[:6]), list(kp_impl[:6]),
                         "the domain geometry of the model is not the stated field expansion followed by the stated map")
            if np.all(np.isfinite(kp)) and np.all(kp > 0.05):
                tests.append(("par", kp, p))
                lines.append(f"poisson {N} {q(dxF)} {qv(kp)} {qv(rhs)} {','.join(str(i) for i in obs_idx) if obs_idx else '_'}")
        except Exception:
            pass

    def cb(outs):
        sols = []
        for t, out in zip(tests, outs):
            d = {**desc, "input": t[0]}
            ctx.case("poisson1d-forward", d)
            if out == "singular" or out.startswith("err") or out == "bad-op":
                ctx.note(f"Poisson model refused {d}: {out}")
                sols.append(None)
                continue
            r = kv(out)
            if r["same"] != "1":
                ctx.disagree("tie:Poisson1D:assembly", d, "assembled = documented stiffness", "differs")
            u = fvec(r["u"]) if r["u"] != "_" else np.zeros(0)
            if obs in MOVED:      # documented observation operator: interpolation of the solution at the moved nodes
                u = interp_obs("Poisson1D", grid_range, u, obs_map(obs, ep)(grid_range))
            sols.append(u)
            with quiet():
                try:
                    got = t[3] if t[0].startswith("inplace") else (A1(tp.model.forward(t[2])) if t[0] == "par" else A1(tp.model.forward(t[1], is_par=False)))
                except Exception as e:
                    got = None
                    ctx.note(f"Poisson forward raised at {d}: {repr(e)[:80]}")
            if got is None:
                continue
            tol = 1e-9 if obs == "none" else 1e-8
            if got.shape != u.shape or not vclose(got, u, tol):
                ctx.disagree("tie:Poisson1D:forward", d, r["u"][:160], list(got[:6]), "forward vs solution of the documented system")
                ctx.fail("tie:Poisson1D:forward", d, list(u[:6]), list(got[:6]), "forward model is not the (observed) solution of the documented discretised Poisson problem")
                ctx.fail("Poisson1D:operator:wrong", d, list(u[:6]), list(got[:6]), "forward model is not the (observed) solution of the documented discretised Poisson problem")
        # exact data
        ye = A1(tp.exactData)
        if tests[0][0] == "exact" and sols[0] is not None and (ye.shape != sols[0].shape or not vclose(ye, sols[0], 1e-8)):
            ctx.disagree("tie:Poisson1D:exactData", desc, list(sols[0][:6]), list(ye[:6]))
            with quiet():
                yf = A1(tp.model.forward(tp.exactSolution, is_par=False))
            ctx.fail("tie:Poisson1D:exactData", desc, list(yf[:6]), list(ye[:6]), "exactData is not the model applied to exactSolution")
        with quiet():
            yf = A1(tp.model.forward(tp.exactSolution, is_par=False))
        if not vclose(ye, yf, 1e-12):
            ctx.fail("Poisson1D:exactData", desc, list(yf[:6]), list(ye[:6]), "exactData is not model.forward(exactSolution)")
        if xs_custom is not None and not vclose(xs, np.array(xs_custom), 1e-14):
            ctx.fail("Poisson1D:exactSolution", desc, xs_custom[:6], list(xs[:6]), "exactSolution is not the one passed")
        caller_objects_check(ctx, "Poisson1D", desc, kw, before, "construction+forward")
        alias_check(ctx, "Poisson1D", desc, tp)
        snr_checks(ctx, B2, "Poisson1D", tp, desc, S, snr, sid, None, logd_scale=(0.25 if (f_base(field) == "kl" or f_mapped(field)) else 1.0),
                   positive=(f_base(field) != "kl" and not f_mapped(field)))

    B1.add(lines, cb)


def case_heat(ctx, cuqi, B1, B2, cfg, sid):
    from cuqi.testproblem import Heat1D
    dim, ep, mt, field, snr, obs, xs_custom = cfg["dim"], cfg["endpoint"], cfg["max_time"], cfg["field"], cfg["SNR"], cfg["obs"], cfg["exactSolution"]
    desc = {"problem": "Heat1D", **{k: (list(v) if isinstance(v, tuple) else v) for k, v in cfg.items()}}
    N = dim
    with quiet():
        fkw, stated_field = field_setup(field, np.linspace(float(Fraction(ep) / (N + 1)), ep, N, endpoint=False))
    kw = dict(dim=dim, endpoint=ep, max_time=mt, SNR=snr, **fkw)
    if obs != "none":
        kw["observation_grid_map"] = obs_map(obs, ep)
    if xs_custom is not None:
        kw["exactSolution"] = np.array(xs_custom).astype(cfg.get("dtype", "float64"))
    before = snap_arrays(kw)
    with scripted(sid) as S, quiet():
        try:
            tp = Heat1D(**kw)
            err = None
        except Exception as e:
            tp, err = None, f"{type(e).__name__}: {str(e)[:100]}"
    ctx.case("heat1d", desc)
    if tp is None:
        ctx.note(f"Heat1D refused {desc}: {err}")
        return
    retain_tp("Heat1D", tp)
    dxF = Fraction(ep) / (N + 1)
    grid = np.array([float(dxF * k) for k in range(1, N + 1)])
    obs_idx = list(range(N))
    if obs == "half":
        obs_idx = [i for i in range(N) if grid[i] > ep / 2]
    elif obs == "even":
        obs_idx = list(range(0, N, 2))
    # step-count decision is exact unless T/(cfl dx^2) is within rounding of an integer
    rexact = Fraction(mt) / (Fraction(5, 11) * dxF * dxF)
    near_int = abs(rexact - round(rexact)) < Fraction(1, 10 ** 9)
    rs = np.random.RandomState(sid + 3)
    xs = A1(tp.exactSolution)
    tests = [("exact", xs)] + [("ic", np.round(rs.randn(N) * 4) / 2.0) for _ in range(2)]
    if not np.all(np.isfinite(xs)) or xs.size != N:
        ctx.note(f"Heat1D exactSolution leaf non-finite (field geometry leaves nodes unassigned?), exact-data comparison skipped: {desc}")
        tests[0] = ("exact-nonfinite", tests[1][1])
    obs_s = ','.join(str(i) for i in obs_idx) if obs_idx else '_'
    k_impl = len(tp.model.pde.time_steps) - 1
    dtF = (Fraction(mt) / k_impl) if k_impl > 0 else Fraction(0)

    def hline(u0):
        # step count: `heat` (model decides it) unless max_time/(cfl dx^2) is an integer up to rounding, then `heatk`
        return f"heat {N} {q(ep)} {q(mt)} {qv(u0)} {obs_s}" if not near_int else f"heatk {N} {q(dxF)} {q(dtF)} {k_impl} {qv(u0)} {obs_s}"
    lines = [hline(u0) for _, u0 in tests]
    if field[0] == "none":
        with quiet():
            try:
                xb = tests[1][1].copy()
                g0 = A1(tp.model.forward(xb)).copy()
                xb[0] += 0.5
                g1 = A1(tp.model.forward(xb)).copy(); x1 = xb.copy()
                xb[:] = tests[2][1]
                g2 = A1(tp.model.forward(xb)).copy()
                g3 = A1(tp.model.forward(x1.copy())).copy()
                for nm_, kv_, g_ in (("inplace-0", tests[1][1], g0), ("inplace-1", x1, g1), ("inplace-2", tests[2][1], g2), ("inplace-3-fresh", x1, g3)):
                    tests.append((nm_, kv_.copy(), None, g_))
                    lines.append(hline(kv_))
            except Exception as e:
                ctx.note(f"Heat in-place history raised at {desc}: {repr(e)[:80]}")
    with quiet():
        p = np.round(rs.randn(tp.model.domain_dim) * 2) / 4.0
        try:
            up = A1(stated_field(p))                                 # stated expansion, then the stated map
            up_impl = A1(tp.model.domain_geometry.par2fun(p))
            ctx.extra_cov.setdefault("pde_field_kinds", {}).setdefault("Heat1D:" + field[0], 0)
            ctx.extra_cov["pde_field_kinds"]["Heat1D:" + field[0]] += 1
            _ext0._mrg(ctx, "field-par2fun(1e-10)", up_impl, up, 1e-10)
            if up_impl.shape != up.shape or not vclose(up_impl, up, 1e-10):
                ctx.fail("Heat1D:field:par2fun", {**desc, "p": [float(v) for v in p[:6]]}, list(up[:6]), list(up_impl[:6]),
                         "the domain geometry of the model is not the stated field expansion followed by the stated map")
            if np.all(np.isfinite(up)) and up.size == N:
                tests.append(("par", up, p))
                lines.append(hline(up))
        except Exception:
            pass

    def cb(outs):
        sols = []
        iters_impl = len(tp.model.pde.time_steps) - 1
        for t, out in zip(tests, outs):
            d = {**desc, "input": t[0]}
            ctx.case("heat1d-forward", d)
            if out.startswith("err") or out == "bad-op":
                ctx.note(f"Heat model refused {d}: {out}")
                sols.append(None)
                continue
            r = kv(out)
            if r["same"] != "1":
                ctx.disagree("tie:Heat1D:assembly", d, "matrix step = documented recurrence", "differs")
            if "iters" in r and int(r["iters"]) != iters_impl:
                ctx.disagree("tie:Heat1D:steps", d, r["iters"], iters_impl, "number of time steps")
                ctx.fail("tie:Heat1D:steps", d, int(r["iters"]), iters_impl, "number of time steps is not int(max_time/(5/11 dx^2))")
                sols.append(None)
                continue
            u = fvec(r["u"]) if r["u"] != "_" else np.zeros(0)
            if obs in MOVED:      # documented observation operator: spline interpolation of the final level at the moved nodes
                u = interp_obs("Heat1D", grid, u, obs_map(obs, ep)(grid))
            sols.append(u)
            with quiet():
                try:
                    got = t[3] if t[0].startswith("inplace") else (A1(tp.model.forward(t[2])) if t[0] == "par" else A1(tp.model.forward(t[1], is_par=False)))
                except Exception as e:
                    got = None
                    ctx.note(f"Heat forward raised at {d}: {repr(e)[:80]}")
            if got is None:
                continue
            if got.shape != u.shape or not vclose(got, u, 1e-8):
                ctx.disagree("tie:Heat1D:forward", d, r["u"][:160], list(got[:6]), "forward vs documented forward-Euler solution")
                ctx.fail("tie:Heat1D:forward", d, list(u[:6]), list(got[:6]), "forward model is not the (observed) forward-Euler solution of the heat equation at max_time")
                ctx.fail("Heat1D:operator:wrong", d, list(u[:6]), list(got[:6]), "forward model is not the (observed) forward-Euler solution of the heat equation at max_time")
        ye = A1(tp.exactData)
        if tests[0][0] == "exact" and sols and sols[0] is not None and (ye.shape != sols[0].shape or not vclose(ye, sols[0], 1e-8)):
            ctx.disagree("tie:Heat1D:exactData", desc, list(sols[0][:6]), list(ye[:6]))
            with quiet():
                yf = A1(tp.model.forward(tp.exactSolution, is_par=False))
            ctx.fail("tie:Heat1D:exactData", desc, list(yf[:6]), list(ye[:6]), "exactData is not the model applied to exactSolution")
        with quiet():
            yf = A1(tp.model.forward(tp.exactSolution, is_par=False))
        if not vclose(ye, yf, 1e-12):
            ctx.fail("Heat1D:exactData", desc, list(yf[:6]), list(ye[:6]), "exactData is not model.forward(exactSolution)")
        if xs_custom is not None and not vclose(xs, np.array(xs_custom), 1e-14):
            ctx.fail("Heat1D:exactSolution", desc, xs_custom[:6], list(xs[:6]), "exactSolution is not the one passed")
        want = f"Noise type: Additive i.i.d. noise with mean zero and signal to noise ratio: {snr}"
        if tp.infoString != want:
            ctx.fail("Heat1D:infoString", desc, want, tp.infoString, "infoString does not state the SNR used")
        caller_objects_check(ctx, "Heat1D", desc, kw, before, "construction+forward")
        alias_check(ctx, "Heat1D", desc, tp)
        snr_checks(ctx, B2, "Heat1D", tp, desc, S, snr, sid, None)

    B1.add(lines, cb)


def case_abel(ctx, cuqi, B1, B2, cfg, sid):
    from cuqi.testproblem import Abel1D
    dim, ep, field, snr = cfg["dim"], cfg["endpoint"], cfg["field"], cfg["SNR"]
    desc = {"problem": "Abel1D", **{k: (list(v) if isinstance(v, tuple) else v) for k, v in cfg.items()}}
    with quiet():
        fkw, stated_field = field_setup(field, np.linspace(0, ep, dim), ("KL_map", "KL_imap"))
    kw = dict(dim=dim, endpoint=ep, SNR=snr, **fkw)
    with scripted(sid) as S, quiet():
        try:
            tp = Abel1D(**kw)
            err = None
        except Exception as e:
            tp, err = None, f"{type(e).__name__}: {str(e)[:100]}"
    ctx.case("abel1d", desc)
    if tp is None:
        ctx.note(f"Abel1D refused {desc}: {err}")
        return
    retain_tp("Abel1D", tp)

    def cb(outs):
        r = kv(outs[0])
        Sasm, Sdoc = fmat(r["asm"], dim), fmat(r["doc"], dim)
        if not np.array_equal(Sasm, Sdoc):
            ctx.disagree("tie:Abel1D:assembly", desc, "assembled squares = documented squares", "differs")
        with quiet():
            F = np.column_stack([A1(tp.model.forward(e, is_par=False)) for e in np.eye(dim)])
        if np.any(F < 0) or not mclose(F ** 2, Sasm, 1e-11):
            ctx.disagree("tie:Abel1D:forward", desc, r["asm"][:160], str((F ** 2).tolist())[:160], "squares of the forward matrix")
            ctx.fail("tie:Abel1D:forward", desc, r["doc"][:160], str((F ** 2).tolist())[:160], "forward model is not the documented Abel quadrature")
            ctx.fail("Abel1D:operator:wrong", desc, r["doc"][:160], str((F ** 2).tolist())[:160], "forward model is not the documented Abel quadrature")
        Aref = np.sqrt(Sdoc)
        xs, ye = A1(tp.exactSolution), A1(tp.exactData)
        h = ep / dim
        tvec = np.array([h / 2 + j * h for j in range(dim)])
        if not vclose(xs, np.sin(tvec * np.pi) * np.exp(-2 * tvec), 1e-12):
            ctx.note(f"Abel1D exactSolution differs from the formula on the quadrature nodes at {desc}")
        if not vclose(ye, Aref @ xs, 1e-10):
            ctx.disagree("tie:Abel1D:exactData", desc, list((Aref @ xs)[:6]), list(ye[:6]))
            ctx.fail("tie:Abel1D:exactData", desc, list((Aref @ xs)[:6]), list(ye[:6]), "exactData is not the Abel operator applied to exactSolution")
        with quiet():
            yf = A1(tp.model.forward(tp.exactSolution, is_par=False))
        if not vclose(ye, yf, 1e-12):
            ctx.fail("Abel1D:exactData", desc, list(yf[:6]), list(ye[:6]), "exactData is not model.forward(exactSolution)")
        # parameter-level forward = A @ par2fun(p) (geometry maps are leaves)
        rs = np.random.RandomState(sid + 3)
        with quiet():
            p = np.round(rs.randn(tp.model.domain_dim) * 2) / 4.0
            try:
                fp = A1(stated_field(p))                                 # stated expansion, then the stated map
                fp_impl = A1(tp.model.domain_geometry.par2fun(p))
                ctx.extra_cov.setdefault("pde_field_kinds", {}).setdefault("Abel1D:" + field[0], 0)
                ctx.extra_cov["pde_field_kinds"]["Abel1D:" + field[0]] += 1
                _ext0._mrg(ctx, "field-par2fun(1e-10)", fp_impl, fp, 1e-10)
                if fp_impl.shape != fp.shape or not vclose(fp_impl, fp, 1e-10):
                    ctx.fail("Abel1D:field:par2fun", {**desc, "p": [float(v) for v in p[:6]]}, list(fp[:6]), list(fp_impl[:6]),
                             "the domain geometry of the model is not the stated field expansion followed by the stated map")
                got = A1(tp.model.forward(p))
                if np.all(np.isfinite(fp)) and not vclose(got, Aref @ fp, 1e-10):
                    ctx.disagree("tie:Abel1D:forward-par", desc, list((Aref @ fp)[:6]), list(got[:6]))
                    ctx.fail("tie:Abel1D:forward-par", desc, list((Aref @ fp)[:6]), list(got[:6]), "forward(parameters) is not the Abel operator applied to the field")
            except Exception as e:
                ctx.note(f"Abel forward(par) raised at {desc}: {repr(e)[:80]}")
        snr_checks(ctx, B2, "Abel1D", tp, desc, S, snr, sid, None, logd_scale=(0.25 if (f_base(field) == "kl" or f_mapped(field)) else 1.0))

    B1.add([f"abel {dim} {q(ep)}"], cb)


# ----------------------------------------------------------------------------- WangCubic
def case_wang(ctx, cuqi, B1, B2, cfg, sid):
    from cuqi.testproblem import WangCubic
    from cuqi.distribution import Gaussian
    nstd, dopt, pk = cfg["noise_std"], cfg["data"], cfg["prior"]
    # data option: None | ("int", v) | ("float", v) | ("arr", [v]) | a plain number (legacy form of the generator)
    if dopt is not None and not isinstance(dopt, tuple):
        dopt = ("float", float(dopt)) if isinstance(dopt, float) else ("int", int(dopt))
    desc = {"problem": "WangCubic", "noise_std": nstd, "data": (None if dopt is None else list(dopt)), "prior": pk}
    prior = {"none": None, "gauss": Gaussian(np.zeros(2), 4.0, name="x"), "gauss-q": Gaussian(np.array([0.5, -1.0]), 0.25, name="q")}[pk]
    kw = {"prior": prior}
    if nstd is not None:
        kw["noise_std"] = nstd
    if dopt is not None:
        kw["data"] = {"int": int, "float": float, "arr": (lambda v: np.array(v, dtype=float)), "iarr": (lambda v: np.array(v, dtype=np.int64)),
                      "f32": (lambda v: np.float32(v)), "0d": (lambda v: np.array(float(v)))}[dopt[0]](dopt[1])
    before = snap_arrays(kw)
    with scripted(sid) as S, quiet():
        tp = WangCubic(**kw)
    retain_tp("WangCubic", tp)
    dval = None if dopt is None else (float(dopt[1][0]) if dopt[0] in ("arr", "iarr") else float(dopt[1]))
    rs = np.random.RandomState(sid + 5)
    pts = [np.round(rs.randn(2) * 4) / 4.0 for _ in range(3)] + [np.array([1.0, 0.0]), np.array([0.0, 0.0])]
    lines = [f"wangopt {'none' if dval is None else q(dval)} {'none' if nstd is None else q(nstd)}"] + [f"wang {q(x[0])} {q(x[1])}" for x in pts]

    def cb(outs):
        ro = kv(outs[0])
        data_eff, nstd_eff = float(pq(ro["data"])), float(pq(ro["std"]))      # what the stated options mean (model)
        ctx.case("wangcubic-options", desc)
        # data given => used verbatim (also 0); the same object/value from every accessor
        with quiet():
            m_, d_, info_ = tp.get_components()
        vals = {"tp.data": tp.data, "likelihood.data": tp.likelihood.data, "get_components": d_, "posterior.data": tp.posterior.data}
        badv = {k: repr(v)[:40] for k, v in vals.items() if np.size(v) != 1 or not close(float(np.asarray(v).ravel()[0]), data_eff, 0)}
        if badv:
            ctx.disagree("tie:WangCubic:data", desc, data_eff, str(badv), "data handed out vs stated data option")
            ctx.fail("tie:WangCubic:data", desc, data_eff, str(badv), "data are not the stated data (given data must be used verbatim, also 0)")
            ctx.fail("WangCubic:data", desc, data_eff, str(badv), "data are not the stated data (given data must be used verbatim, also 0)")
        if S.calls:
            ctx.fail("WangCubic:data", desc, "no random draw (data are given)", len(S.calls), "WangCubic draws random numbers")
        want = f"Noise type: Additive Gaussian with std: {1 if nstd is None else nstd}"
        if tp.infoString != want:
            ctx.fail("WangCubic:infoString", desc, want, tp.infoString, "infoString does not state the noise level used")
        cov_impl = np.asarray(tp.likelihood.distribution.cov, dtype=float).ravel()
        if cov_impl.size != 1 or not close(cov_impl[0], nstd_eff ** 2, 1e-14):
            ctx.disagree("tie:WangCubic:likelihood:cov", desc, nstd_eff ** 2, list(cov_impl))
            ctx.fail("tie:WangCubic:likelihood:cov", desc, nstd_eff ** 2, list(cov_impl), "likelihood variance is not noise_std^2")
            ctx.fail("WangCubic:likelihood:cov", desc, nstd_eff ** 2, list(cov_impl), "likelihood variance is not noise_std^2")
        if tp.exactSolution is not None or tp.exactData is not None:
            ctx.fail("WangCubic:exact", desc, "None", "set", "WangCubic has no exact solution / data")
        for x, out in zip(pts, outs[1:]):
            d = {**desc, "x": [float(x[0]), float(x[1])]}
            ctx.case("wangcubic", d)
            r = kv(out)
            f = float(pq(r["f"])); j = [float(pq(t)) for t in r["j"].split(",")]; dj = [float(pq(t)) for t in r["d"].split(",")]
            with quiet():
                fi = float(np.asarray(tp.model.forward(x)).ravel()[0])
                gi = A1(tp.model.gradient(np.array([1.0]), x))
            doc_f = 10 * x[1] - 10 * x[0] ** 3 + 5 * x[0] ** 2 + 6 * x[0]
            if not close(fi, f, 1e-12):
                ctx.disagree("tie:WangCubic:forward", d, f, fi)
                if not close(fi, doc_f, 1e-12):
                    ctx.fail("tie:WangCubic:forward", d, doc_f, fi, "forward is not the documented cubic")
            if not close(fi, doc_f, 1e-12):
                ctx.fail("WangCubic:operator:wrong", d, doc_f, fi, "forward is not the cubic 10 x1 - 10 x0^3 + 5 x0^2 + 6 x0")
            if not vclose(gi, j, 1e-12):
                ctx.disagree("tie:WangCubic:jacobian", d, j, list(gi))
                if not vclose(gi, dj, 1e-12):
                    ctx.fail("tie:WangCubic:jacobian", d, dj, list(gi), "gradient is not the derivative of the cubic")
            if not vclose(gi, dj, 1e-12):
                ctx.fail("WangCubic:jacobian", d, dj, list(gi), "model gradient is not the derivative of the forward cubic")
            # log posterior: Gaussian loglik with the stated data and std + log prior
            if nstd_eff > 0:
                with quiet():
                    got = float(np.asarray(tp.posterior.logd(x)).ravel()[0])
                    lp = float(np.asarray(tp.prior.logd(x)).ravel()[0])
                    ll = float(np.asarray(tp.likelihood.logd(x)).ravel()[0])
                ref = -0.5 * ((data_eff - f) ** 2 / nstd_eff ** 2 + math.log(nstd_eff ** 2) + LOG2PI) + lp
                if not close(got, ref, 1e-9) or not close(got, ll + lp, 1e-9):
                    ctx.disagree("tie:WangCubic:logd", d, ref, got)
                    ctx.fail("tie:WangCubic:logd", d, ref, got, "posterior.logd is not Gaussian loglik(stated data, noise_std) + logprior")
                    ctx.fail("WangCubic:logd", d, ref, got, "posterior.logd is not Gaussian loglik(stated data, noise_std) + logprior")
        caller_objects_check(ctx, "WangCubic", desc, kw, before, "construction+logd")
        check_components(ctx, B2, "WangCubic", tp, desc)

    B1.add(lines, cb)


# ----------------------------------------------------------------------------- run
def run(ctx):
    import sys
    if hasattr(sys, "set_int_max_str_digits"):
        sys.set_int_max_str_digits(0)          # exact Euler iterates have thousands of digits
    cuqi = import_cuqi()
    from cuqi.testproblem import _testproblem as T
    from cuqi.geometry import Image2D
    thorough = ctx.tier == "thorough"
    rng = ctx.rng
    ctx.trusted += ["numpy / scipy.ndimage.convolve1d / scipy.signal.fftconvolve / scipy.linalg.solve (floating kernels, compared to 1e-9..1e-12)",
                    "named PSF arrays, phantoms, source terms and geometry maps (par2fun) are leaf data taken from the implementation",
                    "scipy interp1d / RectBivariateSpline reproduce node values (observation on sub-grids)"]
    ctx.assumptions += ["np.random.randn / normal / standard_normal are the only sources of randomness (scripted)",
                        "a default (unset) geometry is compatible with any geometry of the same parameter dimension (the code's own policy in Posterior.geometry)",
                        "sigma = ||exactData||/SNR is the stated SNR convention of Poisson1D/Heat1D/Abel1D"]
    B1, B2 = Batch(), Batch()
    from harness.props import c17_ext as _ext0
    STATED["phantoms"] = _ext0.StatedPhantoms(ctx, list(range(1, 14)) + [16, 24, 32, 33])
    from cuqi.testproblem import Deconvolution1D as _D1n
    sid = [1000 * (ctx.seed + 1)]

    def nid():
        sid[0] += 1
        return sid[0]

    mult = 5 if thorough else 1
    dims1 = list(range(6, 13)) + ([16, 24, 32] if thorough else [])

    # ---- fixed inputs first: DESIGN §5 #16 (asymmetric PSF, every BC), degenerate sizes, refusals
    fixed = []
    for bc in BC1:
        fixed.append(dict(dim=6, psf=("arr", [1.0, 2.0, 4.0]), bc=bc, phantom=("arr", [0.0, 1, 2, 3, 4, 5]), noise_type="gaussian", noise_std=0.5, prior=("none", None)))
        fixed.append(dict(dim=7, psf=("arr", [1.0, 2.0, 1.0]), bc=bc, phantom=("arr", [1.0, 1, 2, 3, 4, 5, 2]), noise_type="scaledGaussian", noise_std=0.125, prior=("none", None)))
        fixed.append(dict(dim=6, psf=("arr", [1.0, 3.0, 2.0, 1.0]), bc=bc.capitalize(), phantom=("name", "sinc", None), noise_type="Gaussian", noise_std=0.01, prior=("none", None)))
    fixed.append(dict(dim=12, psf=("arr", [1.0, 2.0, 1.0]), bc="zero", phantom=("name", "square", 4), noise_type="scaledGaussian", noise_std=0.5, prior=("none", None)))
    fixed.append(dict(dim=8, psf=("name", "Defocus", 2.0, 5), bc="periodic", phantom=("name", "pc", None), noise_type="gaussian", noise_std=0.05, prior=("none", None)))
    fixed.append(dict(dim=6, psf=("arr", [1.0, 2.0, 1.0]), bc="dirichlet", phantom=("name", "sinc", None), noise_type="gaussian", noise_std=0.05, prior=("none", None)))
    fixed.append(dict(dim=6, psf=("arr", [1.0, 2.0, 1.0]), bc="zero", phantom=("name", "sinc", None), noise_type="poisson", noise_std=0.05, prior=("none", None)))
    fixed.append(dict(dim=6, psf=("arr", [1.0, 2.0, 1.0]), bc="zero", phantom=("arr", [1.0, 2.0, 3.0]), noise_type="gaussian", noise_std=0.05, prior=("none", None)))
    for c in fixed:
        case_deconv1d(ctx, cuqi, T, B1, B2, c, nid())
    # legacy, fixed
    for c in [dict(dim=8, psf=("arr", [1.0, 2, 3, 0, 0, 0, 0, 0]), bc="periodic"), dict(dim=8, psf=("arr", [0.0, 0, 0, 1, 2, 1, 0, 0]), bc="periodic"),
              dict(dim=6, psf=("name", "gauss", None, None), bc="periodic"), dict(dim=8, psf=("name", "sinc", 3.0, None), bc="periodic"),
              dict(dim=8, psf=("name", "vonMises", None, None), bc="periodic"), dict(dim=6, psf=("name", "prolate", None, None), bc="periodic"),
              dict(dim=7, psf=("name", "gauss", None, None), bc="periodic"), dict(dim=8, psf=("name", "gauss", None, None), bc="zero"),
              dict(dim=8, psf=("name", "gauss", None, 3), bc="periodic"), dict(dim=8, psf=("name", "moffat", None, None), bc="periodic"),
              dict(dim=8, psf=("arr", [1.0, 2, 3]), bc="periodic")]:
        case_deconv1d(ctx, cuqi, T, B1, B2, dict(phantom=("arr", [float(k % 4) for k in range(c["dim"])]), noise_type="gaussian", noise_std=0.25,
                                                prior=("none", None), legacy=True, **c), nid())

    # ---- boundary / falsy option values, every problem (fixed, every run): levels far from 1 and equal to 1 for both
    #      noise types, tiny levels, minimal dims, PSF_size 1, PSF_param extremes, phantoms with zeros, explicit priors
    from cuqi.distribution import Gaussian as _G
    for ntype in ("gaussian", "scaledGaussian"):
        for nstd in (1.0, 0.01, 4.0, 1e-6, 1):
            ph = ("arr", [0.0, 1, 0, 3, -2, 5]) if ntype == "gaussian" else ("arr", [2.0, 1, 4, 3, -2, 5])
            case_deconv1d(ctx, cuqi, T, B1, B2, dict(dim=6, psf=("arr", [1.0, 2.0, 1.0]), bc="periodic", phantom=ph, noise_type=ntype, noise_std=nstd,
                                                    prior=("gauss", _G(np.ones(6), 4.0, name="x"))), nid())
            case_deconv2d(ctx, cuqi, T, B1, B2, dict(dim=3, psf=("arr", [[0.0, 1, 0], [1, 2, 1], [0, 1, 0]]), bc="periodic",
                                                    phantom=("arr", [0.0, 1, 2, 0, 4, 5, 1, 0, 3] if ntype == "gaussian" else [2.0, 1, 2, 3, 4, 5, 1, 6, 3]),
                                                    noise_type=ntype, noise_std=nstd, prior=("gauss", _G(np.ones(9), 4.0, geometry=Image2D((3, 3)), name="x"))), nid())
        case_deconv1d(ctx, cuqi, T, B1, B2, dict(dim=8, psf=("arr", [0.0, 2.0, 1.0, 0.0]), bc="periodic", phantom=("arr", [1.0] * 8), noise_type=ntype, noise_std=4.0,
                                                prior=("none", None), legacy=False), nid())
        case_deconv1d(ctx, cuqi, T, B1, B2, dict(dim=8, psf=("arr", [0.0, 0, 0, 1, 2, 1, 0, 0]), bc="periodic", phantom=("arr", [1.0, 2, 1, 3, 1, 2, 1, 1]), noise_type=ntype,
                                                noise_std=4.0, prior=("none", None), legacy=True), nid())
    for c in [dict(dim=1, psf=("arr", [2.0]), phantom=("arr", [3.0])), dict(dim=2, psf=("arr", [1.0, 2.0, 1.0]), phantom=("arr", [3.0, 0.0])),
              dict(dim=6, psf=("name", "gauss", None, 1), phantom=("arr", [0.0] * 6)), dict(dim=6, psf=("name", "Moffat", 1e6, 3), phantom=("name", "pc", None)),
              dict(dim=6, psf=("name", "gauss", 1e-3, 3), phantom=("name", "skyscraper", None)), dict(dim=6, psf=("name", "Defocus", 0, 3), phantom=("name", "sinc", None)),
              dict(dim=6, psf=("name", "Defocus", 0.5, 3), phantom=("name", "sinc", None)), dict(dim=6, psf=("name", "gauss", None, 12), phantom=("name", "bumps", None))]:
        case_deconv1d(ctx, cuqi, T, B1, B2, dict(bc="zero", noise_type="gaussian", noise_std=0.25, prior=("none", None), **c), nid())
    for c in [dict(dim=1, psf=("arr", [[2.0]]), phantom=("arr", [3.0])), dict(dim=2, psf=("name", "Gauss", 2.56, 1), phantom=("arr", [1.0, 0, 0, 2])),
              dict(dim=3, psf=("name", "Defocus", 0, 3), phantom=("arr", [1.0] * 9)), dict(dim=3, psf=("name", "Moffat", 1e6, 3), phantom=("arr", [0.0] * 9)),
              dict(dim=3, psf=("name", "Gauss", 1e-3, 3), phantom=("arr", [1.0, 0, 2, 0, 3, 0, 4, 0, 5]))]:
        case_deconv2d(ctx, cuqi, T, B1, B2, dict(bc="zero", noise_type="gaussian", noise_std=0.25, prior=("none", None), **c), nid())
    for snr in (1, 1e6, 0.5):
        case_poisson(ctx, cuqi, B1, B2, dict(dim=4, endpoint=2.0, field=("none",), SNR=snr, obs="none", source="const", exactSolution=[1.0, 1.0, 1.0, 1.0]), nid())
        case_heat(ctx, cuqi, B1, B2, dict(dim=4, endpoint=0.5, max_time=0.05, field=("none",), SNR=snr, obs="none", exactSolution=[0.0, 1.0, 0.0, -1.0]), nid())
        case_abel(ctx, cuqi, B1, B2, dict(dim=4, endpoint=rng.choice([0.5, 2.0]), field=("none",), SNR=snr), nid())
    for c in [dict(dim=3, endpoint=1, field=("none",), SNR=200, obs="none", source="default", exactSolution=None),
              dict(dim=2, endpoint=0.5, field=("none",), SNR=10, obs="none", source="lin", exactSolution=[2.0, 3.0])]:
        case_poisson(ctx, cuqi, B1, B2, c, nid())
    for c in [dict(dim=1, endpoint=1, max_time=0.2, field=("none",), SNR=200, obs="none", exactSolution=None),
              dict(dim=2, endpoint=2.0, max_time=0.2, field=("none",), SNR=10, obs="none", exactSolution=[1.0, 0.0]),
              dict(dim=4, endpoint=1, max_time=0, field=("none",), SNR=50, obs="none", exactSolution=None),
              dict(dim=4, endpoint=1, max_time=1e-4, field=("none",), SNR=50, obs="none", exactSolution=[0.0, 2.0, 0.0, 1.0]),
              dict(dim=4, endpoint=1, max_time=0.2, field=("none",), SNR=50, obs="none", exactSolution=[0.0, 0.0, 0.0, 0.0]),
              dict(dim=5, endpoint=1, max_time=0.05, field=("step", 1), SNR=50, obs="none", exactSolution=None)]:
        case_heat(ctx, cuqi, B1, B2, c, nid())
    for c in [dict(dim=1, endpoint=1, field=("none",), SNR=100), dict(dim=2, endpoint=2.0, field=("none",), SNR=1), dict(dim=3, endpoint=0.5, field=("step", 1), SNR=1e4)]:
        case_abel(ctx, cuqi, B1, B2, c, nid())
    for dopt in (None, ("int", 0), ("float", 0.0), ("arr", [0.0]), ("float", -2.0), ("int", 1), ("arr", [3.5]), ("float", 1e-9)):
        for nstd in (None, 1, 0.01, 4.0):
            case_wang(ctx, cuqi, B1, B2, dict(noise_std=nstd, data=dopt, prior=("gauss-q" if nstd == 4.0 else "none")), nid())

    # ---- observation maps that MOVE nodes (same length, same end nodes): the observation must be the documented
    #      interpolation of the PDE solution at the moved nodes, never the solution on the PDE grid
    for kind in MOVED:
        for dim_, fld in ((7, ("none",)), (9, ("step", 3)), (6, ("map-exp",))):
            case_poisson(ctx, cuqi, B1, B2, dict(dim=dim_, endpoint=rng.choice([1, 2.0]), field=fld, SNR=50, obs=kind, source=rng.choice(["default", "lin"]),
                                                exactSolution=None), nid())
        for dim_, mt_, fld in ((6, 0.2, ("none",)), (8, 0.05, ("step", 2)), (5, 0.2, ("map-exp",))):
            case_heat(ctx, cuqi, B1, B2, dict(dim=dim_, endpoint=rng.choice([1, 0.5]), max_time=mt_, field=fld, SNR=50, obs=kind,
                                             exactSolution=(None if fld[0] != "none" else [float((3 * i) % 5 - 1) for i in range(dim_)])), nid())

    # ---- field_type as a Geometry OBJECT and as a string type, each with and without map/imap (fixed, every run): the
    #      forward model on parameters must be  p -> PDE/quadrature( map( stated expansion (p) ) )
    for fld in (("geom-cont",), ("geom-cont+map",), ("geom-step", 2), ("geom-step+map", 2), ("step+map", 3), ("kl+map", 2)):
        case_poisson(ctx, cuqi, B1, B2, dict(dim=6, endpoint=(2.0 if "step" in fld[0] else 1), field=fld, SNR=50, obs="none", source="lin", exactSolution=None), nid())
        case_heat(ctx, cuqi, B1, B2, dict(dim=5, endpoint=(0.5 if "step" in fld[0] else 1), max_time=0.05, field=fld, SNR=50, obs="none", exactSolution=None), nid())
        case_abel(ctx, cuqi, B1, B2, dict(dim=5, endpoint=1, field=fld, SNR=20), nid())

    # ---- G1: non-float64 user arrays (phantom / PSF / exactSolution / data) must give the float64 results
    for dt in ("int64", "int32", "float32", "bool", "uint8", "int8", "float16", "uint16"):
        vals = [1.0, 3, 0, 2, 5, 1] if dt != "bool" else [1.0, 1, 0, 0, 1, 1]
        if dt in ("uint8", "int8"):
            vals = [100.0, 120, 0, 90, 127, 1]          # sums of neighbours exceed the range of the narrow type
        case_deconv1d(ctx, cuqi, T, B1, B2, dict(dim=6, psf=("arr", [1.0, 2.0, 1.0]), bc="periodic", phantom=("arr", vals), noise_type="gaussian", noise_std=0.25,
                                                prior=("none", None), dtype=dt), nid())
        case_deconv1d(ctx, cuqi, T, B1, B2, dict(dim=6, psf=("arr", [0.0, 0, 1, 2, 1, 0]), bc="periodic", phantom=("arr", vals), noise_type="gaussian", noise_std=0.25,
                                                prior=("none", None), dtype=dt, legacy=True), nid())
        if dt not in ("bool", "float16"):
            case_deconv2d(ctx, cuqi, T, B1, B2, dict(dim=3, psf=("arr", [[0.0, 1, 0], [1, 2, 1], [0, 1, 0]]), bc="zero", phantom=("arr", [float(i + 1) for i in range(9)]),
                                                    noise_type="gaussian", noise_std=0.25, prior=("none", None), dtype=dt), nid())
            case_poisson(ctx, cuqi, B1, B2, dict(dim=4, endpoint=1, field=("none",), SNR=50, obs="none", source="const", exactSolution=[1.0, 2, 1, 3], dtype=dt), nid())
            case_heat(ctx, cuqi, B1, B2, dict(dim=4, endpoint=1, max_time=0.05, field=("none",), SNR=50, obs="none", exactSolution=[0.0, 1, 0, 2], dtype=dt), nid())
    for dopt in (("iarr", [0]), ("iarr", [3]), ("f32", 3.5), ("0d", 0.0), ("0d", -2.0)):
        case_wang(ctx, cuqi, B1, B2, dict(noise_std=0.5, data=dopt, prior="none"), nid())

    # ---- legacy form with a narrow-integer custom PSF: the Toeplitz matrix keeps the PSF's dtype and A @ x wraps (known finding)
    for dt in ("uint8", "int8"):
        Pn = np.array([0, 0, 60, 100, 60, 0], dtype=dt); xn = np.array([100, 120, 0, 90, 127, 1], dtype=dt)
        d_ = {"problem": "Deconvolution1D", "legacy": True, "dim": 6, "PSF dtype": dt, "phantom dtype": dt}
        ctx.case("legacy-narrow-int-psf", d_)
        with quiet():
            try:
                with scripted(61):
                    ta = _D1n(dim=6, PSF=Pn, phantom=xn, use_legacy=True, noise_std=0.25)
                with scripted(61):
                    tb = _D1n(dim=6, PSF=Pn.astype(float), phantom=xn.astype(float), use_legacy=True, noise_std=0.25)
                ya, yb = A1(ta.exactData), A1(tb.exactData)
                fa = A1(ta.model.forward(xn.astype(float))); fb = A1(tb.model.forward(xn.astype(float)))
            except Exception as e:
                ctx.note(f"legacy narrow-int PSF raised: {repr(e)[:80]}")
                continue
        if not vrel(ya, yb, 1e-12):
            ctx.fail("Deconvolution1D:legacy:narrow-int-psf:wraps", d_, list(yb), list(ya), "exactData computed in the PSF's narrow integer type wraps around")
        if not vrel(fa, fb, 1e-12):
            ctx.fail("Deconvolution1D:legacy:narrow-int-psf:forward", d_, list(fb), list(fa), "forward on float64 input differs for an integer-typed PSF")

    # ---- G4: extreme scales (no absolute tolerances in the comparisons of these quantities)
    for sc in (1e-12, 1e12):
        for ntype in ("gaussian", "scaledGaussian"):
            case_deconv1d(ctx, cuqi, T, B1, B2, dict(dim=6, psf=("arr", [1.0, 2.0, 1.0]), bc="periodic", phantom=("arr", [v * sc for v in (2.0, 1, 4, 3, 2, 5)]),
                                                    noise_type=ntype, noise_std=(0.25 * sc if ntype == "gaussian" else 0.25), prior=("none", None)), nid())
            case_deconv2d(ctx, cuqi, T, B1, B2, dict(dim=3, psf=("arr", [[0.0, 1, 0], [1, 2, 1], [0, 1, 0]]), bc="periodic", phantom=("arr", [v * sc for v in (2.0, 1, 4, 3, 2, 5, 1, 2, 3)]),
                                                    noise_type=ntype, noise_std=(0.25 * sc if ntype == "gaussian" else 0.25), prior=("none", None)), nid())
        case_deconv1d(ctx, cuqi, T, B1, B2, dict(dim=6, psf=("arr", [sc, 2.0 * sc, sc]), bc="zero", phantom=("arr", [2.0, 1, 4, 3, 2, 5]),
                                                noise_type="gaussian", noise_std=0.25 * sc, prior=("none", None)), nid())
        case_heat(ctx, cuqi, B1, B2, dict(dim=4, endpoint=1, max_time=0.05, field=("none",), SNR=50, obs="none", exactSolution=[v * sc for v in (1.0, 2, 0, 3)]), nid())
        case_abel(ctx, cuqi, B1, B2, dict(dim=4, endpoint=(2.0 if sc > 1 else 0.5), field=("none",), SNR=(1e6 if sc > 1 else 1e-3)), nid())

    # ---- G2/G3/G5: read-only operations (MAP, ML, sample_posterior) on problems whose prior has a non-zero mean:
    #      what the problem hands out is unchanged, repeated calls agree, and agree with a fresh identical problem
    from cuqi.testproblem import Deconvolution1D as _D1, Deconvolution2D as _D2, Heat1D as _H1, Poisson1D as _P1, Abel1D as _A1, WangCubic as _WC
    def _b(cls, seed, **kw):
        def build():
            with scripted(seed):
                return cls(**{k: (v() if callable(v) and k == "prior" else (v.copy() if isinstance(v, np.ndarray) else v)) for k, v in kw.items()})
        return build
    hist = [
        ("Deconvolution1D", {"dim": 6, "BC": "periodic", "prior": "N(1,4)"}, _b(_D1, 11, dim=6, PSF=np.array([1.0, 2, 1]), phantom=np.array([1.0, 3, 0, -2, 5, 1]), noise_std=0.25,
                                                                               prior=lambda: _G(np.ones(6), 4.0, name="x")), None, ("MAP", "MAP", "ML", "MAP"), 20),
        ("Deconvolution1D", {"dim": 8, "legacy": True, "prior": "N(-2..,1)"}, _b(_D1, 12, dim=8, use_legacy=True, phantom=np.arange(8.0), noise_type="scaledGaussian", noise_std=0.5,
                                                                               prior=lambda: _G(np.linspace(-2, 2, 8), 1.0, name="x")), None, ("MAP", "MAP"), 0),
        ("Deconvolution1D", {"dim": 6, "BC": "zero", "prior": "reassigned N(3,0.25)"}, _b(_D1, 13, dim=6, PSF=np.array([1.0, 2, 4]), BC="zero", phantom=np.array([1.0, 3, 0, -2, 5, 1]), noise_std=0.25),
         (lambda: _G(3 * np.ones(6), 0.25, name="x")), ("MAP", "MAP"), 0),
        ("Deconvolution2D", {"dim": 3, "prior": "N(1,4)"}, _b(_D2, 14, dim=3, PSF=np.array([[0.0, 1, 0], [1, 2, 1], [0, 1, 0]]), phantom=np.arange(1.0, 10).reshape(3, 3), noise_std=0.25,
                                                             prior=lambda: _G(np.ones(9), 4.0, geometry=Image2D((3, 3)), name="x")), None, ("MAP", "MAP"), 10),
        ("Abel1D", {"dim": 4, "prior": "reassigned N(1,1)"}, _b(_A1, 15, dim=4, endpoint=2.0, SNR=20), (lambda: _G(np.ones(4), 1.0, name="x")), ("MAP", "MAP", "ML"), 10),
        ("Heat1D", {"dim": 4, "prior": "reassigned N(0.1,1)"}, _b(_H1, 16, dim=4, SNR=20), (lambda: _G(0.1 * np.ones(4), 1.0, name="x")), ("MAP", "MAP"), 0),
        ("Poisson1D", {"dim": 4, "prior": "reassigned N(2,0.01)"}, _b(_P1, 17, dim=4, SNR=20), (lambda: _G(2 * np.ones(4), 0.01, name="x")), ("MAP", "MAP"), 0),
        ("WangCubic", {"prior": "N((1,.5),1)", "data": 0}, _b(_WC, 18, data=0, noise_std=0.5, prior=lambda: _G(np.array([1.0, 0.5]), 1.0, name="x")), None, ("MAP", "MAP"), 10),
    ]
    for name_, d_, build_, np_, ops_, smp_ in hist:
        try:
            check_history(ctx, name_, {"problem": name_, **d_}, build_, new_prior=np_, ops=ops_, sample=smp_)
        except Exception as e:
            import traceback
            tb = traceback.format_exc()
            if "/cuqi/" not in tb:
                raise
            ctx.fail(f"{name_}:history:crash", {"problem": name_, **d_}, "the call history runs", repr(e)[:160], "a call history on a test problem raised")

    # ---- named PSFs of ODD and even size (explicit PSF_size, default PSF_size = dim with odd and even dim), every BC:
    #      the documented profile is independent of the code (doc_psf), plus structure clauses (centred, symmetric, normalised)
    for nm_ in ("Gauss", "Moffat"):
        for (dim_, size_, par_) in ((9, None, None), (8, None, 2.0), (7, 7, 1.5), (10, 7, None), (10, 4, 1.0), (11, 5, 0.75), (6, 3, 3.0), (33, None, None)):
            case_deconv1d(ctx, cuqi, T, B1, B2, dict(dim=dim_, psf=("name", nm_, par_, size_), bc=BC1[(dim_ + len(nm_)) % 5], phantom=("arr", [float((3 * i) % 7 - 2) for i in range(dim_)]),
                                                    noise_type="gaussian", noise_std=0.25, prior=("none", None)), nid())
        for (dim_, size_, par_) in ((4, 3, 2.56), (5, 5, 1.0), (4, 4, 1.0), (5, 1, 2.0), (3, 7, 2.0)):
            case_deconv2d(ctx, cuqi, T, B1, B2, dict(dim=dim_, psf=("name", nm_, par_, size_), bc=BC2[(dim_ + size_) % 5], phantom=("arr", [float((3 * i) % 7 - 2) for i in range(dim_ * dim_)]),
                                                    noise_type="gaussian", noise_std=0.25, prior=("none", None)), nid())
    for (dim_, nm_, par_) in ((6, "gauss", None), (10, "Gauss", 3.0), (8, "sinc", None), (6, "prolate", 4.0), (12, "vonMises", None), (8, "vonmises", 2.0)):
        case_deconv1d(ctx, cuqi, T, B1, B2, dict(dim=dim_, psf=("name", nm_, par_, None), bc="periodic", phantom=("arr", [float((3 * i) % 7 - 2) for i in range(dim_)]),
                                                noise_type="gaussian", noise_std=0.25, prior=("none", None), legacy=True), nid())
    # ---- Defocus: integer radii (pixels exactly ON the circle), Pythagorean radii, generic radii, discs clipped by the array, 1-D and 2-D
    for (dim_, size_, R_) in ((5, 7, 1), (5, 7, 2), (5, 9, 3), (5, 11, 4), (4, 13, 5), (5, 9, 2.5), (5, 9, 5 ** 0.5), (5, 9, 2 ** 0.5), (4, 6, 2), (4, 8, 3), (5, 5, 3), (3, 3, 1), (4, 21, 2.56)):
        case_deconv2d(ctx, cuqi, T, B1, B2, dict(dim=dim_, psf=("name", "Defocus", R_, size_), bc=BC2[int(size_ + 2 * R_) % 5], phantom=("arr", [float((3 * i) % 7 - 2) for i in range(dim_ * dim_)]),
                                                noise_type="gaussian", noise_std=0.25, prior=("none", None)), nid())
    for (dim_, size_, R_) in ((8, 7, 1), (8, 7, 2), (9, None, 3), (10, None, None), (8, 6, 2), (12, 5, 1.5), (7, 9, 4), (8, 3, 1)):
        case_deconv1d(ctx, cuqi, T, B1, B2, dict(dim=dim_, psf=("name", "Defocus", R_, size_), bc=BC1[dim_ % 5], phantom=("arr", [float((3 * i) % 7 - 2) for i in range(dim_)]),
                                                noise_type="gaussian", noise_std=0.25, prior=("none", None)), nid())
    # ---- names that are substrings / superstrings of documented names must be refused (exact matching)
    for bad in (dict(psf=("name", "gaussian", None, 3)), dict(psf=("name", "gaus", None, 3)), dict(psf=("name", "moffatt", None, 3)), dict(bc="periodicx"), dict(bc="zer"),
                dict(bc="reflected"), dict(noise_type="gauss"), dict(noise_type="scaled"), dict(noise_type="gaussians"), dict(phantom=("name", "sin", None)),
                dict(phantom=("name", "squares", None)), dict(phantom=("name", "gaussian", None))):
        c = dict(dim=6, psf=("arr", [1.0, 2.0, 1.0]), bc="zero", phantom=("arr", [1.0, 2, 3, 1, 2, 3]), noise_type="gaussian", noise_std=0.25, prior=("none", None))
        c.update(bad)
        case_deconv1d(ctx, cuqi, T, B1, B2, c, nid())
    for bad in (dict(psf=("name", "sincx", None, None)), dict(psf=("name", "gaussian", None, None)), dict(psf=("name", "von", None, None))):
        case_deconv1d(ctx, cuqi, T, B1, B2, dict(dim=6, bc="periodic", phantom=("arr", [1.0, 2, 3, 1, 2, 3]), noise_type="gaussian", noise_std=0.25, prior=("none", None), legacy=True, **bad), nid())
    for bad in (dict(psf=("name", "gaussian", 1.0, 3)), dict(psf=("name", "defocused", 1.0, 3)), dict(bc="neumannx"), dict(bc="zer"), dict(noise_type="scaled"), dict(phantom=("name", "cookies"))):
        c = dict(dim=3, psf=("arr", [[1.0]]), bc="zero", phantom=("arr", [1.0] * 9), noise_type="gaussian", noise_std=0.25, prior=("none", None))
        c.update(bad)
        case_deconv2d(ctx, cuqi, T, B1, B2, c, nid())

    # ---- G7: constructor arrays in other memory layouts (same numbers => same problem)
    for lay in ("strided", "negstride", "readonly", "fortran", "transposed-view"):
        case_deconv1d(ctx, cuqi, T, B1, B2, dict(dim=6, psf=("arr", [1.0, 2.0, 4.0]), bc="reflect", phantom=("arr", [1.0, 3, 0, -2, 5, 1]), noise_type="scaledGaussian", noise_std=0.25,
                                                prior=("none", None), layout=lay), nid())
        case_deconv2d(ctx, cuqi, T, B1, B2, dict(dim=3, psf=("arr", [[0.0, 1, 0], [2, 3, 1], [0, 4, 0]]), bc="neumann", phantom=("arr", [float(i + 1) for i in range(9)]),
                                                noise_type="gaussian", noise_std=0.25, prior=("none", None), layout=lay), nid())

    # ---- G5/G7/G8: evaluation histories of model.forward (reused in-place modified buffers, layouts, zeros), vs fresh problems
    fh = [
        ("Poisson1D", {"dim": 6}, _b(_P1, 21, dim=6, SNR=50), [2.0, 1, 3, 2, 4, 1], True, False),
        ("Poisson1D", {"dim": 6, "is_par": False}, _b(_P1, 22, dim=6, endpoint=2.0, SNR=50), [2.0, 1, 3, 2, 4, 1], False, False),
        ("Poisson1D", {"dim": 7, "field": "Step"}, _b(_P1, 23, dim=7, field_type="Step", field_params={"n_steps": 3}, SNR=50), [2.0, 1, 3], True, False),
        ("Poisson1D", {"dim": 6, "obs": "shift"}, _b(_P1, 24, dim=6, SNR=50, observation_grid_map=obs_map("shift", 1)), [2.0, 1, 3, 2, 4, 1], True, False),
        ("Heat1D", {"dim": 5}, _b(_H1, 25, dim=5, SNR=50), [1.0, 0, 2, -1, 3], True, True),
        ("Heat1D", {"dim": 6, "field": "Step"}, _b(_H1, 26, dim=6, field_type="Step", field_params={"n_steps": 2}, SNR=50), [1.0, 2], True, True),
        ("Abel1D", {"dim": 5}, _b(_A1, 27, dim=5, SNR=50), [1.0, 0, 2, -1, 3], True, True),
        ("Deconvolution1D", {"dim": 6}, _b(_D1, 28, dim=6, PSF=np.array([1.0, 2, 4]), BC="zero", phantom=np.arange(6.0), noise_std=0.25), [1.0, 0, 2, -1, 3, 1], True, True),
        ("Deconvolution1D", {"dim": 6, "legacy": True}, _b(_D1, 29, dim=6, use_legacy=True, phantom=np.arange(6.0), noise_std=0.25), [1.0, 0, 2, -1, 3, 1], True, True),
        ("Deconvolution2D", {"dim": 3}, _b(_D2, 30, dim=3, PSF=np.array([[0.0, 1, 0], [2, 3, 1], [0, 4, 0]]), BC="neumann", phantom=np.arange(9.0).reshape(3, 3), noise_std=0.25),
         [1.0, 0, 2, -1, 3, 1, 0, 2, 1], True, True),
        ("WangCubic", {}, _b(_WC, 31, data=0, noise_std=0.5), [1.0, -2.0], True, False),
    ]
    for name_, d_, build_, x0_, ispar_, lin_ in fh:
        check_forward_history(ctx, name_, {"problem": name_, **d_}, build_, x0_, is_par=ispar_, linear=lin_)

    # ---- user callables that reuse ONE output buffer (map / source / observation map): same results as fresh outputs
    _buf = {"m": None}
    def _map_shared(x):
        if _buf["m"] is None or _buf["m"].shape != np.shape(x):
            _buf["m"] = np.empty(np.shape(x))
        np.exp(x, out=_buf["m"])
        return _buf["m"]
    for cls_, nm_, kw_ in ((_P1, "Poisson1D", dict(dim=6, SNR=50)), (_H1, "Heat1D", dict(dim=5, SNR=50))):
        ba, bb = _b(cls_, 41, map=_map_shared, imap=np.log, **kw_), _b(cls_, 41, map=(lambda x: np.exp(x)), imap=np.log, **kw_)
        with quiet():
            ta, tb = ba(), bb()
        d_ = {"problem": nm_, "map": "writes into one shared buffer", **{k: v for k, v in kw_.items()}}
        ctx.case("shared-buffer-callable", d_)
        pts_ = [np.array([0.5, -0.25, 0.0, 0.25, 1.0, -0.5][:ta.model.domain_dim]), np.zeros(ta.model.domain_dim), np.array([0.25] * ta.model.domain_dim)]
        outs_a = []
        with quiet():
            for x_ in pts_:
                ya = ta.model.forward(x_); outs_a.append((ya, A1(ya).copy())); retain(f"{nm_}|forward(shared-map)", ya)
        for x_, (ya, ya0) in zip(pts_, outs_a):
            with quiet():
                yb = A1(tb.model.forward(x_.copy()))
            if not vrel(ya0, yb, 1e-10) or not np.array_equal(A1(ya), ya0):
                ctx.fail(f"{nm_}:history:forward:shared-buffer-callable", {**d_, "x": [float(v) for v in x_]}, list(yb[:6]), list(A1(ya)[:6]),
                         "with a map that reuses one output buffer an (earlier) forward result differs from that with a map returning fresh arrays")
        if not (vrel(A1(ta.exactData), A1(tb.exactData), 1e-12) and vrel(A1(ta.data), A1(tb.data), 1e-12)):
            ctx.fail(f"{nm_}:history:construction:shared-buffer-callable", d_, list(A1(tb.exactData)[:6]), list(A1(ta.exactData)[:6]), "exactData/data depend on the map reusing its buffer")

    # ---- positional vs keyword passing of the optional constructor arguments (documented / pinned parameter order)
    _P = np.array([1.0, 2.0, 4.0]); _ph = np.array([1.0, 3, 0, -2, 5, 1]); _ph2 = np.arange(1.0, 10).reshape(3, 3); _P2 = np.array([[0.0, 1, 0], [2, 3, 1], [0, 4, 0]])
    _src = lambda xs: 1.0 + 2.0 * xs
    _om = obs_map("even", 1)
    pos = [
        ("Deconvolution1D", _D1, (6, _P, None, None, "reflect", _ph, None, "scaledGaussian", 0.5, None, False),
         ("dim", "PSF", "PSF_param", "PSF_size", "BC", "phantom", "phantom_param", "noise_type", "noise_std", "prior", "use_legacy")),
        ("Deconvolution1D", _D1, (7, "Moffat", 1.5, 5, "nearest", "pc", None, "gaussian", 0.125),
         ("dim", "PSF", "PSF_param", "PSF_size", "BC", "phantom", "phantom_param", "noise_type", "noise_std")),
        ("Deconvolution2D", _D2, (3, _P2, 2.56, 21, "neumann", _ph2, "scaledGaussian", 0.5, None), ("dim", "PSF", "PSF_param", "PSF_size", "BC", "phantom", "noise_type", "noise_std", "prior")),
        ("Poisson1D", _P1, (7, 2.0, _src, "Step", {"n_steps": 3}, None, None, 20, _om, None),
         ("dim", "endpoint", "source", "field_type", "field_params", "map", "imap", "SNR", "observation_grid_map", "exactSolution")),
        ("Heat1D", _H1, (6, 0.5, 0.05, "Step", {"n_steps": 2}, None, None, 20, np.array([0.0, 1, 0, 2, 0, 1]), _om),
         ("dim", "endpoint", "max_time", "field_type", "field_params", "map", "imap", "SNR", "exactSolution", "observation_grid_map")),
        ("Abel1D", _A1, (5, 2.0, "Step", {"n_steps": 2}, None, None, 20), ("dim", "endpoint", "field_type", "field_params", "KL_map", "KL_imap", "SNR")),
        ("WangCubic", _WC, (0.5, None, 0.0), ("noise_std", "prior", "data")),
    ]
    for name_, cls_, args_, names_ in pos:
        d_ = {"problem": name_, "positional": [str(a)[:20] for a in args_]}
        ctx.case("positional-vs-keyword", d_)
        with quiet():
            try:
                with scripted(51):
                    ta = cls_(*[a.copy() if isinstance(a, np.ndarray) else a for a in args_])
                with scripted(51):
                    tb = cls_(**{k: (a.copy() if isinstance(a, np.ndarray) else a) for k, a in zip(names_, args_)})
            except Exception as e:
                ctx.fail(f"{name_}:positional:raises", d_, "both calling conventions construct the problem", repr(e)[:120], "positional or keyword construction raised")
                continue
        sa, sb = tp_snapshot(ta), tp_snapshot(tb)
        diff = [k for k in sa if sa[k] != sb.get(k)]
        if diff:
            ctx.fail(f"{name_}:positional:{diff[0]}", {**d_, "differs": diff}, "the same problem from positional and keyword arguments", diff,
                     "optional arguments passed by position give a different problem than the same arguments passed by keyword (pinned parameter order)")

    # ---- signed PSFs (negative, mixed-sign, tiny +-1e-14 next to O(1), zero-sum, all-negative), every BC, odd/even sizes:
    #      custom PSFs are used as given (no normalisation, no thresholding) — compared entry by entry, exactly in 1-D
    dog = [float(v) for v in np.round((np.exp(-0.5 * (np.arange(-3, 4) / 1.0) ** 2) - 0.6 * np.exp(-0.5 * (np.arange(-3, 4) / 2.0) ** 2)) * 64) / 64]
    signed1 = [[-0.05, -0.1, 0.2, 0.9, 0.2, -0.1, -0.05], dog, [1.0, -1.0], [-1.0, 2.0, -1.0], [-1.0, -2.0, -4.0], [-3.0, -1.0, -1.0, -2.0],
               [1e-14, 1.0, -1e-14], [0.5, -1e-14, 1e-14, 2.0], [1.0, 0.0, -1.0], [2.0, -3.0, 0.0, 1.0]]
    for k, P in enumerate(signed1):
        for bc in BC1:
            case_deconv1d(ctx, cuqi, T, B1, B2, dict(dim=8 if len(P) > 4 else 6, psf=("arr", P), bc=bc,
                                                    phantom=("arr", [1.0, 3, 0, -2, 5, 1, 2, 4][:8 if len(P) > 4 else 6]),
                                                    noise_type=("gaussian" if (k + len(bc)) % 2 else "scaledGaussian"), noise_std=0.25, prior=("none", None)), nid())
    for Pc in ([0.0, 0, -1, 2, -1, 0, 0, 0], [0.0, -0.1, 0.2, 0.9, 0.2, -0.1, 0, 0][::1], [-1.0, 0, 0, 0, 1, 0, 0, 0], [-1.0, -2, -3, 0, 0, 0, 0, 0],
               [0.0, 0, 0, 1e-14, 1.0, -1e-14, 0, 0], [0.0, 0, 0, -0.5, 1.0, -0.5, 0, 0]):
        case_deconv1d(ctx, cuqi, T, B1, B2, dict(dim=8, psf=("arr", Pc), bc="periodic", phantom=("arr", [1.0, 3, 0, -2, 5, 1, 2, 4]),
                                                noise_type="gaussian", noise_std=0.25, prior=("none", None), legacy=True), nid())
    signed2 = [[[0.0, -1, 0], [-1, 4, -1], [0, -1, 0]], [[1.0, -1], [-1, 1]], [[-1.0, -2], [-3, -4]], [[-0.05, -0.1, 0.2], [0.3, 0.9, -0.2], [0.1, -0.1, -0.05]],
               [[1e-14, 1.0, 0], [0, 2.0, -1e-14], [0, 0, 0]], [[-2.0]]]
    for k, P in enumerate(signed2):
        for bc in BC2:
            case_deconv2d(ctx, cuqi, T, B1, B2, dict(dim=4, psf=("arr", P), bc=bc, phantom=("arr", [float((3 * i) % 7 - 2) for i in range(16)]),
                                                    noise_type=("gaussian" if (k + len(bc)) % 2 else "scaledGaussian"), noise_std=0.25, prior=("none", None)), nid())

    # ---- generated: Deconvolution1D
    for _ in range(50 * mult):
        dim = rng.choice(dims1)
        cfg = dict(dim=dim, psf=gen_psf1(rng, dim), bc=rng.choice(BC1 + ["Periodic", "ZERO", "Mirror", "Reflect", "Nearest"]), phantom=gen_phantom1(rng, dim),
                   noise_type=rng.choice(["gaussian", "Gaussian", "scaledGaussian", "scaledgaussian", "GAUSSIAN"]), noise_std=rng.choice([0.01, 0.5, 0.125, 1.0, 0.05, 4.0]),
                   prior=make_prior(cuqi, rng, dim))
        case_deconv1d(ctx, cuqi, T, B1, B2, cfg, nid())
    for _ in range(14 * mult):
        dim = rng.choice([6, 8, 10, 12])
        if rng.random() < 0.6:
            P = [0.0] * dim
            c = dim // 2
            if rng.random() < 0.5:
                for d_, v in ((0, 3), (1, rng.randint(0, 3)), (2, rng.randint(0, 2))):
                    P[(c + d_) % dim] = float(v); P[(c - d_) % dim] = float(v)
            else:
                for k in range(rng.randint(1, 4)):
                    P[rng.randrange(dim)] = float(rng.randint(1, 4))
            psf = ("arr", P)
        else:
            psf = ("name", rng.choice(["gauss", "Gauss", "sinc", "prolate", "vonMises"]), rng.choice([None, 3.0, 8.0]), None)
        cfg = dict(dim=dim, psf=psf, bc="periodic", phantom=gen_phantom1(rng, dim), noise_type=rng.choice(["gaussian", "scaledGaussian"]),
                   noise_std=rng.choice([0.01, 0.5]), prior=make_prior(cuqi, rng, dim), legacy=True)
        case_deconv1d(ctx, cuqi, T, B1, B2, cfg, nid())

    # ---- Deconvolution2D
    fixed2 = []
    for bc in BC2:
        fixed2.append(dict(dim=4, psf=("arr", [[1.0, 2, 3], [4, 5, 6], [7, 8, 9]]), bc=bc, phantom=("arr", [float(k) for k in range(16)]), noise_type="gaussian", noise_std=0.5, prior=("none", None)))
        fixed2.append(dict(dim=3, psf=("arr", [[1.0, 2], [3, 4]]), bc=bc.capitalize(), phantom=("arr", [float(k + 1) for k in range(9)]), noise_type="scaledGaussian", noise_std=0.25, prior=("none", None)))
    fixed2.append(dict(dim=5, psf=("arr", [[1.0] * 3] * 3), bc="zero", phantom=("arr", [0.0] * 12 + [1.0] + [0.0] * 12), noise_type="scaledGaussian", noise_std=0.5, prior=("none", None)))
    fixed2.append(dict(dim=4, psf=("name", "Gauss", 2.56, 3), bc="periodic", phantom=("name", "cookie"), noise_type="gaussian", noise_std=0.0036, prior=("none", None)))
    fixed2.append(dict(dim=4, psf=("arr", [[1.0]]), bc="robin", phantom=("arr", [1.0] * 16), noise_type="gaussian", noise_std=0.5, prior=("none", None)))
    fixed2.append(dict(dim=4, psf=("arr", [[1.0]]), bc="zero", phantom=("arr", [1.0] * 16), noise_type="laplace", noise_std=0.5, prior=("none", None)))
    for c in fixed2:
        case_deconv2d(ctx, cuqi, T, B1, B2, c, nid())
    for _ in range(28 * mult):
        dim = rng.choice([3, 4, 4, 5] + ([6] if thorough else []))
        ph = ("arr", [float(rng.randint(0, 5) + (1 if rng.random() < 0.7 else 0)) for _ in range(dim * dim)]) if rng.random() < 0.85 else ("name", rng.choice(["cookie", "satellite", "camera"]))
        k, pr = make_prior(cuqi, rng, dim * dim, geometry=Image2D((dim, dim)))
        cfg = dict(dim=dim, psf=gen_psf2(rng), bc=rng.choice(BC2 + ["Neumann", "Zero", "PERIODIC"]), phantom=ph,
                   noise_type=rng.choice(["gaussian", "scaledGaussian", "Gaussian"]), noise_std=rng.choice([0.0036, 0.5, 0.125, 1.0, 4.0]), prior=(k, pr))
        case_deconv2d(ctx, cuqi, T, B1, B2, cfg, nid())

    # ---- Poisson1D / Heat1D / Abel1D
    for _ in range(26 * mult):
        dim = rng.choice([4, 5, 6, 7, 8, 10] + ([16, 24] if thorough else []))
        cfg = dict(dim=dim, endpoint=rng.choice([1, 1, 2.0, 0.5]), field=gen_field(rng, dim), SNR=rng.choice([200, 50, 10]),
                   obs=rng.choice(["none", "none", "half", "even"]), source=rng.choice(["default", "const", "lin"]),
                   exactSolution=(None if rng.random() < 0.6 else [float(rng.randint(1, 5)) for _ in range(dim)]))
        case_poisson(ctx, cuqi, B1, B2, cfg, nid())
    for _ in range(26 * mult):
        dim = rng.choice([3, 4, 5, 6, 7, 8] + ([12, 16] if thorough else []))
        cfg = dict(dim=dim, endpoint=rng.choice([1, 1, 2.0, 0.5]), max_time=rng.choice([0.2, 0.2, 0.05, 0.01, 0.001]), field=gen_field(rng, dim),
                   SNR=rng.choice([200, 50, 10]), obs=rng.choice(["none", "none", "half", "even"]),
                   exactSolution=(None if rng.random() < 0.6 else [float(rng.randint(-2, 5)) for _ in range(dim)]))
        # sub-grid observation goes through a bicubic spline in (x, t): scipy needs >= 4 nodes and >= 4 time levels
        levels = int(Fraction(cfg["max_time"]) / (Fraction(5, 11) * (Fraction(cfg["endpoint"]) / (dim + 1)) ** 2)) + 1
        if cfg["obs"] != "none" and (dim < 4 or levels < 4) and rng.random() < 0.85:
            cfg["obs"] = "none"
        case_heat(ctx, cuqi, B1, B2, cfg, nid())
    for _ in range(16 * mult):
        dim = rng.choice([3, 4, 5, 6, 8, 12] + ([24, 32] if thorough else []))
        cfg = dict(dim=dim, endpoint=rng.choice([1, 1, 2.0, 0.5]), field=gen_field(rng, dim), SNR=rng.choice([100, 20, 5, 1]))
        case_abel(ctx, cuqi, B1, B2, cfg, nid())
    # ---- WangCubic
    for _ in range(12 * mult):
        cfg = dict(noise_std=rng.choice([None, 1, 0.5, 2.0, 0.125]), data=rng.choice([None, 1, 3.5, -2.0, 0.0]), prior=rng.choice(["none", "gauss", "gauss-q"]))
        case_wang(ctx, cuqi, B1, B2, cfg, nid())

    # ---- session 3: named PSF builders / option glue inside the model (Model/C17_psf.lean); lines ride in the second batch
    from harness.props import c17_ext as _ext
    _ext.psf_streams(ctx, cuqi, T, B2)

    _ext.phantom_stream(ctx, cuqi, STATED["phantoms"])
    _ext.grid_stream(ctx, cuqi, B2)
    _ext.setter_histories(ctx, cuqi, B2)
    _ext.option_stream(ctx, cuqi, B2, STATED["phantoms"])
    _ext.option2d_stream(ctx, cuqi, B2)

    B1.run(ctx)
    B2.run(ctx)

    verify_retained(ctx)

    # ---- instance independence (histories over SEVERAL problem instances; placed last because it modifies what problems hand out)
    from harness.props import c17_ext
    c17_ext.instance_histories(ctx, cuqi, T)
    c17_ext.caller_mutation_histories(ctx, cuqi)

    # malformed protocol lines: the driver must not default
    bad = ["dc1 zero x 1,2", "leg 8", "noise gaussian 1/0 1 1", "poisson 3 0 1,1,1,1 1,1,1 0", "comp Foo", "heat 3 1 1/5 1,2 0", "wang 1", ""]
    outs = ctx.lean.drive(bad)
    for ln, o in zip(bad, outs):
        ctx.case("malformed-line", {"line": ln}, nontrivial=False)
        if not (o == "bad-op" or o.startswith("err")):
            ctx.note(f"driver accepted malformed line {ln!r}: {o[:60]}")
