"""C08 — NUTS: correspondence of one transition (scripted draws, exact rational model) + invariant oracles."""
import math, itertools, contextlib, time
import numpy as np
from fractions import Fraction
from harness.core import import_cuqi, quiet, q, qv, qm, pv, pm, close, vclose


class Script:
    """scripted replacement of np.random.{rand, standard_normal, exponential}; records consumption"""
    def __init__(self, normals, exps, rands):
        self.normals, self.exps, self.rands = list(normals), list(exps), list(rands)
        self.n_rand = 0
        self.exhausted = False

    def rand(self, *a):
        assert not a
        if self.n_rand >= len(self.rands):
            self.exhausted = True
            return 0.5
        v = self.rands[self.n_rand]; self.n_rand += 1
        return v

    def standard_normal(self, size=None):
        return np.array(self.normals.pop(0), dtype=float)

    def exponential(self, scale=1.0, size=None):
        v = self.exps.pop(0)
        return np.array([v]) if size is not None else v


@contextlib.contextmanager
def scripted(script):
    saved = (np.random.rand, np.random.standard_normal, np.random.exponential)
    np.random.rand, np.random.standard_normal, np.random.exponential = script.rand, script.standard_normal, script.exponential
    try:
        yield script
    finally:
        np.random.rand, np.random.standard_normal, np.random.exponential = saved


WALLVAL = {"nan": float("nan"), "inf": float("inf"), "-inf": float("-inf")}


def make_target(cuqi, P, b, wall, wall_kind="nan", center=None, const=0.0):
    """log-density  b.x - x.P.x/2 + const;  with `center` m (then b = P m in the model) it is evaluated in the centred form
    -(x-m).P.(x-m)/2 + const, which differs from the model's value by the constant m.P.m/2 (no decision depends on it) and
    stays accurate in floating point far from the origin"""
    P = np.array(P, dtype=float); b = np.array(b, dtype=float)
    m = None if center is None else np.array(center, dtype=float)
    calls = {"n": 0}

    def logpdf(x):
        x = np.asarray(x, dtype=float).ravel()
        calls["n"] += 1
        if wall is not None and x[0] > wall:
            return WALLVAL[wall_kind]
        if m is not None:
            return float(-0.5 * (x - m) @ (P @ (x - m)) + const)
        return float(b @ x - 0.5 * x @ (P @ x) + const)

    def grad(x):
        x = np.asarray(x, dtype=float).ravel()
        if m is not None:
            return -(P @ (x - m))
        return b - P @ x

    return cuqi.distribution.UserDefinedDistribution(dim=len(b), logpdf_func=logpdf, gradient_func=grad), calls


def gen_case(rng, thorough):
    d = rng.choice([1, 1, 2, 2, 3])
    # small SPD integer-ish P
    L = [[(rng.randint(1, 3) if i == j else (rng.randint(-1, 1) if j < i else 0)) for j in range(d)] for i in range(d)]
    P = [[sum(L[i][k] * L[j][k] for k in range(d)) for j in range(d)] for i in range(d)]
    b = [rng.randint(-2, 2) for _ in range(d)]
    eps = rng.choice([1 / 64, 1 / 16, 1 / 8, 1 / 4, 1 / 2, 3 / 4, 3 / 4, 7 / 8, 1.25, 1.5, 1.5, 2.0, 3.0])
    md = rng.choice([0, 1, 2, 3, 4, 5] + ([6] if thorough else []))
    x = [rng.randint(-8, 8) / 4 for _ in range(d)]
    r = [rng.randint(-12, 12) / 8 for _ in range(d)]
    e = rng.randint(1, 40) / 16
    wall = None; wall_kind = "nan"
    if rng.random() < 0.3:
        wall = x[0] + rng.choice([0.25, 0.5, 1.0, 2.0])
        wall_kind = rng.choice(["nan", "nan", "inf", "-inf"])
    nu = 3 * (2 ** (md + 1)) + 8
    us = [rng.randint(1, 1023) / 1024 for _ in range(nu)]
    int_x0 = rng.random() < 0.15
    if int_x0:
        x = [float(rng.randint(-3, 3)) for _ in range(d)]
        if wall is not None:
            wall = x[0] + rng.choice([0.25, 0.5, 1.0, 2.0])
    return dict(d=d, P=P, b=b, eps=eps, md=md, x=x, r=r, e=e, wall=wall, wall_kind=wall_kind, us=us, int_x0=int_x0)


def gen_tight(rng, thorough):
    """ill-conditioned diagonal target, step size near the stability limit, tight slice: doublings then contribute
    fewer slice points than the tree built so far (0 < n' < n) and the trajectory goes on doubling"""
    d = rng.choice([2, 3, 4, 5])
    diag = [1] + [rng.choice([1, 2, 4, 9, 16]) for _ in range(d - 1)]
    P = [[diag[i] if i == j else 0 for j in range(d)] for i in range(d)]
    b = [0] * d
    eps = rng.choice([1 / 4, 5 / 16, 3 / 8, 7 / 16]) * (4 / max(diag) ** 0.5)
    eps = round(eps * 64) / 64 or 1 / 64
    md = rng.choice([3, 4, 5])
    x = [rng.randint(-6, 6) / (4 * diag[i] ** 0.5 * 1.0) for i in range(d)]
    x = [round(v * 16) / 16 for v in x]
    r = [rng.randint(-12, 12) / 8 for _ in range(d)]
    e = rng.choice([1 / 64, 1 / 32, 1 / 16, 1 / 8, 1 / 4, 1 / 2])
    nu = 3 * (2 ** (md + 1)) + 8
    us = [rng.randint(1, 1023) / 1024 for _ in range(nu)]
    return dict(d=d, P=P, b=b, eps=eps, md=md, x=x, r=r, e=e, wall=None, wall_kind="nan", us=us, int_x0=False)


def run_impl(cuqi, case, iface):
    target, calls = make_target(cuqi, case["P"], case["b"], case["wall"], case.get("wall_kind", "nan"), case.get("center"), case.get("const", 0.0))
    x0 = np.array(case["x"], dtype=float)
    if case.get("int_x0"):
        x0 = np.array([int(v) for v in case["x"]])     # integer-dtype start point (users do pass np.array([3, -2]))
    sc = Script([case["r"]], [case["e"]], case["us"])
    out = {}
    with quiet():
        if iface == "exp":
            from cuqi.experimental.mcmc import NUTS
            s = NUTS(target, initial_point=x0, max_depth=case["md"], step_size=case["eps"])
            s._ensure_initialized()
            with scripted(sc):
                try:
                    s.sample(1)
                except NameError as ex:
                    out["raised"] = repr(ex)
            out["x"] = np.asarray(s.current_point, dtype=float).ravel()
            out["acc"] = int(s._acc[-1]) if len(s._acc) > 1 or (len(s._acc) == 1 and "raised" not in out) else None
            out["nodes"] = s.num_tree_node_list[-1] if s.num_tree_node_list else None
            out["alpha"] = float(s._current_alpha_ratio)
            out["logd"] = float(s.current_target_logd)
            out["grad"] = np.asarray(s.current_target_grad, dtype=float).ravel()
            out["sampler"] = s
        else:
            from cuqi.sampler import NUTS
            if case.get("reuse"):
                # history: the same sampler object already ran once from another start; the start vector is then
                # updated IN PLACE (x0[:] = ...) as users continuing a chain do
                other = np.array(case["reuse"], dtype=float)
                s = NUTS(target, x0=other, max_depth=case["md"], adapt_step_size=case["eps"])
                pre = Script([[0.25] * len(other)], [0.5], [0.5] * (3 * (2 ** (case["md"] + 1)) + 8))
                with scripted(pre):
                    try:
                        s.sample(2, 0)
                    except NameError:
                        pass
                s.x0[:] = x0
            else:
                s = NUTS(target, x0=x0, max_depth=case["md"], adapt_step_size=case["eps"])
            with scripted(sc):
                try:
                    res = s.sample(2, 0)
                    out["x"] = np.asarray(res.samples[:, 1], dtype=float).ravel()
                except NameError as ex:
                    out["raised"] = repr(ex)
                    out["x"] = None
            out["nodes"] = s.num_tree_node_list[-1] if getattr(s, "num_tree_node_list", None) else None
            out["sampler"] = s
    out["consumed"] = sc.n_rand
    out["exhausted"] = sc.exhausted
    return out


def line_of(case, guard):
    return "nuts %d %d %s %s %s %s %s %s %s %s" % (
        guard, case["md"], q(case["eps"]), qm(case["P"]), qv(case["b"]),
        "none" if case["wall"] is None else q(case["wall"]) + ":" + case.get("wall_kind", "nan"), qv(case["x"]), qv(case["r"]), q(case["e"]), qv(case["us"]))


def float_orbit(case, kmax):
    """independent float leapfrog orbit z_k, k=-kmax..kmax, with Hamiltonians (harness-side reference)"""
    P = np.array(case["P"], float); b = np.array(case["b"], float); eps = case["eps"]
    m = None if case.get("center") is None else np.array(case["center"], float); const = case.get("const", 0.0)
    def lp(x):
        if case["wall"] is not None and x[0] > case["wall"]:
            return WALLVAL[case.get("wall_kind", "nan")]
        if m is not None:
            return float(-0.5 * (x - m) @ (P @ (x - m)) + const)
        return float(b @ x - 0.5 * x @ (P @ x) + const)
    def g(x): return -(P @ (x - m)) if m is not None else b - P @ x
    x0 = np.array(case["x"], float); r0 = np.array(case["r"], float)
    orbit = {0: (x0, r0, lp(x0) - 0.5 * r0 @ r0)}
    for sgn in (1, -1):
        x, r = x0.copy(), r0.copy()
        for k in range(1, kmax + 1):
            r = r + 0.5 * sgn * eps * g(x); x = x + sgn * eps * r; r = r + 0.5 * sgn * eps * g(x)
            orbit[sgn * k] = (x.copy(), r.copy(), lp(x) - 0.5 * r @ r)
            if not np.all(np.isfinite(x)) or np.abs(x).max() > 1e12:
                break
    return orbit


def oracle_transition(ctx, key, case, iface, out):
    """implementation-only invariants of the property; returns True if one fails"""
    bad = False
    desc = {k: case[k] for k in ("d", "P", "b", "eps", "md", "x", "r", "e", "wall")}
    desc["iface"] = iface; desc["us_head"] = case["us"][:8]; desc["wall_kind"] = case.get("wall_kind", "nan")
    if out.get("raised"):
        ctx.fail(key + ":nan-selected", desc, "non-finite proposals are never selected", out["raised"], "NUTS moved to a point with NaN log-density")
        return True
    x = out["x"]
    if x is None or not np.all(np.isfinite(x)):
        ctx.fail(key + ":nan-selected", desc, "finite next state", str(x)); return True
    orbit = float_orbit(case, 2 ** (case["md"] + 1))
    ham0 = orbit[0][2]; logu = ham0 - case["e"]
    hit = [k for k, (xk, rk, hk) in orbit.items() if np.allclose(xk, x, rtol=1e-9, atol=1e-9)]
    if not hit:
        ctx.fail(key + ":off-orbit", desc, "next state is a leapfrog iterate of the start", x.tolist(), "selected point is not on the leapfrog orbit")
        bad = True
    else:
        hk = orbit[hit[0]][2]
        if not math.isfinite(hk):
            if hit[0] != 0:   # staying at the (finite) start is always allowed
                ctx.fail(key + ":nonfinite-selected", desc, "non-finite proposals are never selected", hk,
                         "NUTS moved to a point whose log-density is not finite (" + str(hk) + ")")
                bad = True
        elif hk < logu - 1e-9:
            ctx.fail(key + ":outside-slice", desc, f"H(selected) >= log u = {logu}", hk, "selected candidate is outside the slice")
            bad = True
    if iface == "exp":
        s = out["sampler"]
        with quiet():
            l_true = float(s.target.logd(x)); g_true = np.asarray(s.target.gradient(x), float).ravel()
        if not close(out["logd"], l_true, 1e-9) or not vclose(out["grad"], g_true, 1e-9):
            ctx.fail(key + ":cache", desc, {"logd": l_true, "grad": g_true.tolist()}, {"logd": out["logd"], "grad": out["grad"].tolist()},
                     "cached log-density/gradient do not belong to the current point")
            bad = True
    return bad


def oracle_integrator(ctx, cuqi, rng):
    """reversibility and unit Jacobian of the implementation's own _Leapfrog (both interfaces)"""
    for iface in ("exp", "legacy"):
        for _ in range(6):
            case = gen_case(rng, False); case["wall"] = None
            target, _ = make_target(cuqi, case["P"], case["b"], None)
            with quiet():
                if iface == "exp":
                    from cuqi.experimental.mcmc import NUTS
                    s = NUTS(target, initial_point=np.array(case["x"], float), max_depth=1, step_size=case["eps"])
                else:
                    from cuqi.sampler import NUTS
                    s = NUTS(target, x0=np.array(case["x"], float), max_depth=1, adapt_step_size=case["eps"])
                x = np.array(case["x"], float); r = np.array(case["r"], float); g = np.asarray(target.gradient(x), float)
                x1, r1, l1, g1 = s._Leapfrog(x, r, g, case["eps"])
                x2, r2, l2, g2 = s._Leapfrog(x1, r1, g1, -case["eps"])
            desc = {"iface": iface, "eps": case["eps"], "P": case["P"], "b": case["b"], "x": case["x"], "r": case["r"]}
            ctx.case("leapfrog-reverse", desc)
            key = f"NUTS:{iface}:leapfrog"
            if not (vclose(x2, x, 1e-9) and vclose(r2, r, 1e-9)):
                ctx.fail(key + ":reversible", desc, "leapfrog(-eps) o leapfrog(eps) = id", {"x": np.asarray(x2).tolist(), "r": np.asarray(r2).tolist()},
                         "integrator is not time-reversible")
            # Jacobian (the map is affine for a quadratic target): columns by unit perturbations
            d = len(x); J = np.zeros((2 * d, 2 * d))
            base = np.concatenate([x1, r1])
            for i in range(2 * d):
                dz = np.zeros(2 * d); dz[i] = 1.0
                with quiet():
                    xa, ra, _, _ = s._Leapfrog(x + dz[:d], r + dz[d:], np.asarray(target.gradient(x + dz[:d]), float), case["eps"])
                J[:, i] = np.concatenate([xa, ra]) - base
            if not close(np.linalg.det(J), 1.0, 1e-8):
                ctx.fail(key + ":volume", desc, "det Jacobian = 1", float(np.linalg.det(J)), "integrator is not volume preserving")
            # model agreement on the same step
            out = ctx.lean.drive(["leapfrog %s %s %s %s %s" % (q(case["eps"]), qm(case["P"]), qv(case["b"]), qv(case["x"]), qv(case["r"]))])[0]
            mx, mr, mg = [pv(t.strip()) for t in out.split("|")]
            if not (vclose(x1, mx) and vclose(r1, mr) and vclose(g1, mg)):
                ctx.disagree(key, desc, out[:200], {"x": np.asarray(x1).tolist(), "r": np.asarray(r1).tolist()}, "leapfrog step differs from the model")


def oracle_uniform(ctx, cuqi, rng, ncfg):
    """exhaustive midpoint enumeration of the three uniforms of a depth-2 sub-tree: every in-slice leaf must be
    returned with frequency exactly 1/n' (thresholds have denominators <= 4, grid 12 integrates them exactly)"""
    K = 12
    grid = [(2 * k + 1) / (2 * K) for k in range(K)]
    for iface in ("exp", "legacy"):
        done = 0; tries = 0
        while done < ncfg and tries < 40 * ncfg:
            tries += 1
            case = gen_case(rng, False); case["wall"] = None
            case["eps"] = rng.choice([1 / 16, 1 / 8, 1 / 4])
            target, _ = make_target(cuqi, case["P"], case["b"], None)
            x = np.array(case["x"], float); r = np.array(case["r"], float)
            with quiet():
                if iface == "exp":
                    from cuqi.experimental.mcmc import NUTS
                    s = NUTS(target, initial_point=x, max_depth=3, step_size=case["eps"])
                else:
                    from cuqi.sampler import NUTS
                    s = NUTS(target, x0=x, max_depth=3, adapt_step_size=case["eps"])
                s._num_tree_node = 0
                l0 = float(target.logd(x)); g0 = np.asarray(target.gradient(x), float)
            ham = l0 - 0.5 * r @ r
            e = rng.choice([0.05, 0.1, 0.3])   # small: some leaves fall outside the slice
            logu = ham - e
            v = rng.choice([-1, 1])
            counts = {}; nprime = None; sflag = None
            for us in itertools.product(grid, repeat=3):
                sc = Script([], [], list(us))
                with quiet(), scripted(sc):
                    res = s._BuildTree(x.copy(), r.copy(), g0.copy(), ham, logu, v, 2, case["eps"])
                cand = tuple(np.round(np.asarray(res[6], float), 12)); nprime = int(res[9]); sflag = int(res[10])
                counts[cand] = counts.get(cand, 0) + 1
            if sflag != 1 or nprime is None or nprime < 2:
                continue   # early stop or trivial: the uniformity claim is about completed sub-trees
            orb = float_orbit(case, 4)
            pts = [tuple(np.round(orb[v * k][0], 12)) for k in range(1, 5) if v * k in orb]
            if len(set(pts)) < 4:
                continue   # degenerate orbit (coinciding leaves): frequencies per position are not 1/n' then
            done += 1
            desc = {"iface": iface, "P": case["P"], "b": case["b"], "x": case["x"], "r": case["r"], "eps": case["eps"], "e": e, "v": v, "n_prime": nprime}
            ctx.case("subtree-uniform", desc)
            total = K ** 3
            freqs = sorted(counts.values())
            if len(counts) != nprime or any(c * nprime != total for c in counts.values()):
                ctx.fail(f"NUTS:{iface}:subsampling-uniform", desc, f"each of the {nprime} in-slice leaves returned with frequency 1/{nprime}",
                         {str(k): v_ / total for k, v_ in counts.items()}, "progressive sub-sampling inside the tree is not uniform over the in-slice leaves")



def oracle_divergence(ctx, cuqi, rng, want):
    """directed: the first leaf of a depth-2 sub-tree is divergent (H' < log u - Delta_max): the tree must report s'=0 and
    build nothing after it (property: the trajectory stops at the first divergence)"""
    for iface in ("exp", "legacy"):
        found = 0; tries = 0
        while found < want and tries < 300:
            tries += 1
            case = gen_case(rng, False); case["wall"] = None
            case["eps"] = rng.choice([8.0, 16.0, 32.0]); case["x"] = [v_ * 8 + 3 for v_ in case["x"]]
            orb = float_orbit(case, 1)
            v = rng.choice([-1, 1]); e = 0.5
            if v not in orb:
                continue
            ham = orb[0][2]; logu = ham - e
            if not (math.isfinite(orb[v][2]) and orb[v][2] < logu - 1000 - 1.0):
                continue
            found += 1
            target, calls = make_target(cuqi, case["P"], case["b"], None)
            x = np.array(case["x"], float); r = np.array(case["r"], float)
            with quiet():
                if iface == "exp":
                    from cuqi.experimental.mcmc import NUTS
                    s = NUTS(target, initial_point=x, max_depth=3, step_size=case["eps"])
                else:
                    from cuqi.sampler import NUTS
                    s = NUTS(target, x0=x, max_depth=3, adapt_step_size=case["eps"])
                s._num_tree_node = 0
                g0 = np.asarray(target.gradient(x), float)
                calls["n"] = 0
                sc = Script([], [], [0.5] * 8)
                with scripted(sc):
                    res = s._BuildTree(x.copy(), r.copy(), g0.copy(), ham, logu, v, 2, case["eps"])
            desc = {"iface": iface, "P": case["P"], "b": case["b"], "x": case["x"], "r": case["r"], "eps": case["eps"], "e": e, "v": v,
                    "H_first_leaf_minus_logu": orb[v][2] - logu}
            ctx.case("tree-divergent-first-leaf", desc)
            key = f"NUTS:{iface}:tree:divergence-not-stopping"
            if int(res[10]) != 0 or calls["n"] != 1:
                ctx.fail(key, desc, "s'=0 and exactly 1 leaf evaluated", {"s_prime": int(res[10]), "leaves_evaluated": calls["n"]},
                         "the trajectory does not stop at the first divergent leaf")


def oracle_u0(ctx, cuqi, rng, want):
    """directed edge case: `rand()` returning exactly 0.0 (it is half-open [0,1)) in the in-tree Metropolis test while the
    second half has no in-slice leaf: the candidate must stay the in-slice one (property: every selected candidate lies in the slice)"""
    for iface in ("exp", "legacy"):
        found = 0; tries = 0
        while found < want and tries < 400:
            tries += 1
            case = gen_case(rng, False); case["wall"] = None
            case["eps"] = rng.choice([0.5, 0.75, 1.0 if iface == "exp" else 0.75, 1.5])
            orb = float_orbit(case, 2)
            e = rng.choice([0.05, 0.2, 0.5]); v = rng.choice([-1, 1])
            if v * 1 not in orb or v * 2 not in orb:
                continue
            ham = orb[0][2]; logu = ham - e
            h1, h2 = orb[v][2], orb[2 * v][2]
            if not (h1 >= logu + 1e-6 and h2 < logu - 1e-6 and h2 > logu - 900):
                continue
            found += 1
            target, _ = make_target(cuqi, case["P"], case["b"], None)
            x = np.array(case["x"], float); r = np.array(case["r"], float)
            with quiet():
                if iface == "exp":
                    from cuqi.experimental.mcmc import NUTS
                    s = NUTS(target, initial_point=x, max_depth=3, step_size=case["eps"])
                else:
                    from cuqi.sampler import NUTS
                    s = NUTS(target, x0=x, max_depth=3, adapt_step_size=case["eps"])
                s._num_tree_node = 0
                g0 = np.asarray(target.gradient(x), float)
                sc = Script([], [], [0.0])
                with scripted(sc):
                    res = s._BuildTree(x.copy(), r.copy(), g0.copy(), ham, logu, v, 1, case["eps"])
            desc = {"iface": iface, "P": case["P"], "b": case["b"], "x": case["x"], "r": case["r"], "eps": case["eps"], "e": e, "v": v, "u": 0.0}
            ctx.case("tree-u0", desc)
            cand = np.asarray(res[6], float)
            mo = ctx.lean.drive(["tree %d 1 %s %s %s none %s %s %s %s 0" % (v, q(case["eps"]), qm(case["P"]), qv(case["b"]), qv(case["x"]), qv(case["r"]), q(logu), q(ham))])[0]
            mc = [float(t) for t in pv(mo.split("|")[2].strip())]
            key = f"NUTS:{iface}:tree:u0-selects-outside-slice"
            if not vclose(cand, mc, 1e-9):
                ctx.disagree(key, desc, mc, cand.tolist(), "candidate at u=0 differs from the model")
            if int(res[9]) >= 1 and not np.allclose(cand, orb[v][0], rtol=1e-9, atol=1e-12):
                ctx.fail(key, desc, "candidate = the in-slice leaf " + str(orb[v][0].tolist()), cand.tolist(),
                         "with rand()==0.0 the in-tree test `rand() <= n2/max(1,n1+n2)` replaces an in-slice candidate by a leaf outside the slice")


def chain_stream(ctx, cuqi, rng, n):
    """two consecutive transitions on ONE sampler object: the second starts from the state, cached log-density and cached
    gradient the first left behind; the model is run on transition 1, then on transition 2 from the model's exact next state."""
    cases = []
    for i in range(n):
        c = gen_tight(rng, False) if i % 3 == 0 else gen_case(rng, False)
        c["int_x0"] = False
        c["md"] = min(c["md"], 4)
        if i % 2 == 1 and c["eps"] == 1.0:
            c["eps"] = 0.5        # legacy: adapt_step_size=1.0 is read as True (adaptation on), not as a step size
        cases.append(c)
    o1 = ctx.lean.drive([line_of(c, 1) for c in cases])
    stage2 = []
    for i, (c, mo) in enumerate(zip(cases, o1)):
        if mo in ("bad-op", "err-nonfinite-start"):
            continue
        f = [t.strip() for t in mo.split("|")]
        if float(Fraction(f[7])) < 1e-7:
            continue
        r2 = [rng.randint(-12, 12) / 8 for _ in range(c["d"])]; e2 = rng.randint(1, 40) / 16
        us2 = [rng.randint(1, 1023) / 1024 for _ in range(len(c["us"]))]
        line2 = "nuts 1 %d %s %s %s %s %s %s %s %s" % (
            c["md"], q(c["eps"]), qm(c["P"]), qv(c["b"]),
            "none" if c["wall"] is None else q(c["wall"]) + ":" + c.get("wall_kind", "nan"), f[1], qv(r2), q(e2), qv(us2))
        stage2.append((c, f, r2, e2, us2, line2, "exp" if i % 2 == 0 else "legacy"))
    o2 = ctx.lean.drive([t[5] for t in stage2])
    for (c, f1, r2, e2, us2, _, iface), mo2 in zip(stage2, o2):
        if mo2 in ("bad-op", "err-nonfinite-start"):
            continue
        f2 = [t.strip() for t in mo2.split("|")]
        if float(Fraction(f2[7])) < 1e-7:
            continue
        cons1, cons2 = int(f1[3]), int(f2[3])
        desc = {k: c[k] for k in ("d", "P", "b", "eps", "md", "x", "wall", "wall_kind")}
        desc.update({"iface": iface, "r": [c["r"], r2], "e": [c["e"], e2], "us_head": [c["us"][:6], us2[:6]]})
        key = f"NUTS:{iface}:chain2"
        target, calls = make_target(cuqi, c["P"], c["b"], c["wall"], c.get("wall_kind", "nan"))
        x0 = np.array(c["x"], dtype=float); x0_snap = x0.copy()
        sc = Script([c["r"], r2], [c["e"], e2], c["us"][:cons1] + us2)
        raised = None
        with quiet():
            try:
                if iface == "exp":
                    from cuqi.experimental.mcmc import NUTS
                    s = NUTS(target, initial_point=x0, max_depth=c["md"], step_size=c["eps"])
                    s._ensure_initialized()
                    with scripted(sc):
                        s.sample(1); mid = np.array(s.current_point, dtype=float).ravel().copy(); s.sample(1)
                    xe = np.asarray(s.current_point, dtype=float).ravel()
                    cache = (float(s.current_target_logd), np.asarray(s.current_target_grad, dtype=float).ravel())
                    chain = np.asarray(s.get_samples().samples, dtype=float)
                else:
                    from cuqi.sampler import NUTS
                    s = NUTS(target, x0=x0, max_depth=c["md"], adapt_step_size=c["eps"])
                    with scripted(sc):
                        res = s.sample(3, 0)
                    chain = np.asarray(res.samples, dtype=float)
                    mid = chain[:, 1].copy(); xe = chain[:, 2].copy(); cache = None
            except Exception as ex:
                raised = repr(ex)[:200]
        ctx.case(f"chain2-{iface}", desc)
        if raised:
            ctx.disagree(key + ":crash", desc, mo2[:60], raised, "implementation raised during two consecutive transitions"); continue
        m1 = [float(v) for v in pv(f1[1])]; m2 = [float(v) for v in pv(f2[1])]
        bad = False
        if not np.array_equal(x0, x0_snap):
            ctx.fail(key + ":modifies-start", desc, x0_snap.tolist(), x0.tolist(), "the sampler modified the caller's start vector"); bad = True
        if cache is not None:
            l_true = float(target.logpdf(xe)); g_true = np.asarray(target.gradient(xe), float).ravel()
            if not (close(cache[0], l_true, 1e-9) and vclose(cache[1], g_true, 1e-9)):
                ctx.fail(key, desc, {"logd": l_true, "grad": g_true.tolist()}, {"logd": cache[0], "grad": cache[1].tolist()},
                         "after two transitions the cached log-density/gradient do not belong to the current point"); bad = True
        if chain.shape[1] >= 2 and not (vclose(chain[:, -1], xe, 0) and vclose(chain[:, -2], mid, 0)):
            ctx.fail(key, desc, {"stored chain": [mid.tolist(), xe.tolist()]}, chain[:, -2:].T.tolist(), "the stored chain is not the sequence of states visited"); bad = True
        diff = None
        if not vclose(mid, m1, 1e-7): diff = ("state after transition 1", m1, mid.tolist())
        elif not vclose(xe, m2, 1e-7): diff = ("state after transition 2", m2, xe.tolist())
        elif sc.n_rand != cons1 + cons2: diff = ("uniform draws consumed", cons1 + cons2, sc.n_rand)
        if diff:
            ctx.disagree(key, desc, {diff[0]: diff[1]}, {diff[0]: diff[2]}, diff[0] + " differs")
            if not bad and diff[0] == "state after transition 2":
                # implementation-only: replay transition 2 on a FRESH sampler started at the implementation's own mid state with the
                # same draws; a transition is a function of (state, draws) only, so the two must agree
                sc2 = Script([r2], [e2], us2)
                with quiet():
                    try:
                        if iface == "exp":
                            from cuqi.experimental.mcmc import NUTS
                            t2 = NUTS(target, initial_point=mid.copy(), max_depth=c["md"], step_size=c["eps"]); t2._ensure_initialized()
                            with scripted(sc2): t2.sample(1)
                            xf = np.asarray(t2.current_point, float).ravel()
                        else:
                            from cuqi.sampler import NUTS
                            t2 = NUTS(target, x0=mid.copy(), max_depth=c["md"], adapt_step_size=c["eps"])
                            with scripted(sc2): xf = np.asarray(t2.sample(2, 0).samples[:, 1], float).ravel()
                        if not vclose(xf, xe, 1e-9):
                            ctx.fail(key, desc, {"fresh sampler from the same state and draws": xf.tolist()}, xe.tolist(),
                                     "the second transition depends on more than the current state and the draws (stale cached log-density / gradient / tree state)")
                    except Exception:
                        pass


def adapt_stream(ctx, cuqi, rng, n):
    """step-size selection: `_FindGoodEpsilon`, the dual-averaging recursion and the schedule by which both interfaces use
    epsilon / epsilon_bar during warm-up and sampling (Model/C08Adapt.lean).  The acceptance statistics fed to the model are
    the ones the implementation produced; sqrt(k) and k**-0.75 are computed here."""
    from cuqi.experimental.mcmc import NUTS as ENUTS
    from cuqi.sampler import NUTS as LNUTS

    class RecE(ENUTS):
        def step(self):
            self._rec_eps.append(float(self._epsilon))
            acc = super().step()
            self._rec_alpha.append(float(self._current_alpha_ratio))
            return acc
        def tune(self, skip_len, update_count):
            self._rec_tune.append((int(skip_len), int(update_count), len(self._rec_eps)))
            super().tune(skip_len, update_count)
            self._rec_after.append((float(self._epsilon), float(self._epsilon_bar)))

    class RecL(LNUTS):
        def _BuildTree(self, *a, **k):
            self._depth += 1
            try:
                out = super()._BuildTree(*a, **k)
            finally:
                self._depth -= 1
            if self._depth == 0:
                self._last = float(out[-2]) / float(out[-1])
            return out
        def _update_run_diagnostic_attributes(self, k, nt, eps, eb):
            self._alphas.append(self._last)
            super()._update_run_diagnostic_attributes(k, nt, eps, eb)

    LOG2 = math.log(2.0)
    jobs = []
    for i in range(n):
        c = gen_case(rng, False)
        c["md"] = rng.choice([0, 1, 2, 3]); c["int_x0"] = False
        if c["wall"] is not None and c["wall_kind"] == "nan" and rng.random() < 0.5:
            c["wall_kind"] = rng.choice(["inf", "-inf"])
        iface = "exp" if i % 2 == 0 else "legacy"
        Nb = rng.choice([1, 2, 3, 4, 6, 8, 10, 12]); N = rng.choice([1, 2, 3, 4])
        tf = rng.choice([0.1, 0.25, 0.5, 1.0, 0.34])
        delta = rng.choice([0.6, 0.8, 0.3, 0.65])
        given = (iface == "exp" and rng.random() < 0.4)
        eps_given = rng.choice([1 / 8, 1 / 4, 1 / 2, 3 / 4]) if given else None
        steps = Nb + N + 2
        normals = [[rng.randint(-12, 12) / 8 for _ in range(c["d"])] for _ in range(steps + 1)]
        exps = [rng.randint(1, 40) / 16 for _ in range(steps + 1)]
        us = [rng.randint(1, 1023) / 1024 for _ in range(steps * (3 * 2 ** (c["md"] + 1) + 4))]
        jobs.append(dict(c=c, iface=iface, Nb=Nb, N=N, tf=tf, delta=delta, eps_given=eps_given, normals=normals, exps=exps, us=us))
    # FindGoodEpsilon on the model (start momentum = first scripted normal)
    wall_of = lambda c: "none" if c["wall"] is None else q(c["wall"]) + ":" + c.get("wall_kind", "nan")
    fe = ctx.lean.drive(["findeps %s %s %s %s %s %s 200" % (qm(j["c"]["P"]), qv(j["c"]["b"]), wall_of(j["c"]), qv(j["c"]["x"]), qv(j["normals"][0]), q(LOG2))
                         for j in jobs])
    runs = []
    for j, fe_out in zip(jobs, fe):
        c, iface = j["c"], j["iface"]
        target, calls = make_target(cuqi, c["P"], c["b"], c["wall"], c.get("wall_kind", "nan"))
        x0 = np.array(c["x"], dtype=float)
        if not math.isfinite(float(target.logpdf(x0))):
            continue
        sc = Script(j["normals"], j["exps"], j["us"])
        desc = {"iface": iface, "d": c["d"], "P": c["P"], "b": c["b"], "x": c["x"], "wall": c["wall"], "wall_kind": c["wall_kind"], "md": c["md"],
                "Nb": j["Nb"], "N": j["N"], "tune_freq": j["tf"], "opt_acc_rate": j["delta"], "step_size": j["eps_given"], "r0": j["normals"][0]}
        rec = {}
        try:
            with quiet(), scripted(sc):
                if iface == "exp":
                    s = RecE(target, initial_point=x0, max_depth=c["md"], step_size=j["eps_given"], opt_acc_rate=j["delta"])
                    s._rec_eps, s._rec_alpha, s._rec_tune, s._rec_after = [], [], [], []
                    s._ensure_initialized()
                    rec["eps0"] = float(s._epsilon)
                    s.warmup(j["Nb"], tune_freq=j["tf"])
                    s.sample(j["N"])
                    rec.update(eps=list(s._rec_eps), alpha=list(s._rec_alpha), tune=list(s._rec_tune), after=list(s._rec_after),
                               interval=max(int(j["tf"] * j["Nb"]), 1), final_bar=float(s._epsilon_bar))
                else:
                    s = RecL(target, x0=x0, max_depth=c["md"], adapt_step_size=True, opt_acc_rate=j["delta"])
                    s._depth, s._last, s._alphas = 0, float("nan"), []
                    s.sample(j["N"], j["Nb"])
                    rec.update(eps=[float(v) for v in s.epsilon_list], bar=[float(v) for v in s.epsilon_bar_list], alpha=list(s._alphas))
                    rec["eps0"] = rec["eps"][0]
        except NameError:
            continue        # 'NaN potential func': the chain reached the wall; judged by the transition stream
        except Exception as ex:
            ctx.disagree(f"NUTS:{iface}:adapt:crash", desc, "runs", repr(ex)[:200], "warm-up + sampling raised"); continue
        if sc.exhausted or any(not math.isfinite(a) for a in rec["alpha"]):
            continue
        runs.append((j, desc, rec, fe_out))
    lines = []
    for j, desc, rec, fe_out in runs:
        Nb, N, delta = j["Nb"], j["N"], j["delta"]
        le0, mu = math.log(rec["eps0"]), math.log(10 * rec["eps0"])
        ks = range(1, Nb + 2)
        sq = qv([math.sqrt(k) for k in ks]); et = qv([float(k) ** (-0.75) for k in ks])
        if j["iface"] == "exp":
            lines.append("adaptexp %s %s %s %d %d %d %s %s %s" % (q(le0), q(mu), q(delta), Nb, rec["interval"], N, qv(rec["alpha"][:Nb]) if Nb else "_", sq, et))
        else:
            lines.append("adaptleg %s %s %s %d %d %s %s %s" % (q(le0), q(mu), q(delta), Nb, N - 1, qv(rec["alpha"][:Nb]) if Nb else "_", sq, et))
    outs = ctx.lean.drive(lines)
    hist = {"exp": 0, "legacy": 0, "findeps_compared": 0, "findeps_differs": 0, "tunes": 0}
    for (j, desc, rec, fe_out), mo in zip(runs, outs):
        iface, Nb, N, delta = j["iface"], j["Nb"], j["N"], j["delta"]
        key = f"NUTS:{iface}:adapt"
        ctx.case(f"adapt-{iface}", desc); hist[iface] += 1
        eps = rec["eps"]; bad = False
        # ---- implementation-only oracle -------------------------------------------------------------------------------
        if not all(math.isfinite(e) and e > 0 for e in eps):
            ctx.fail(key, desc, "positive finite step sizes", eps, "a transition ran with a non-positive or non-finite step size"); bad = True
        samp = eps[Nb:] if iface == "exp" else eps[Nb:]
        # after warm-up nothing adapts any more: transitions 2.. of the sampling phase all use ONE step size (epsilon_bar), and
        # the first uses the last adapted value; a step size that keeps changing depends on the chain's past
        if len(samp) >= 3 and not all(v == samp[1] for v in samp[1:]):
            ctx.fail(key, desc, "one fixed step size for every transition after the first sampling transition", samp,
                     "the step size still changes during the sampling phase (adaptation after warm-up)"); bad = True
        if iface == "exp":
            if len(samp) >= 2 and Nb >= 1 and not close(samp[1], rec["final_bar"], 1e-12):
                ctx.fail(key, desc, {"epsilon_bar after warm-up": rec["final_bar"]}, samp, "sampling does not use the averaged step size produced by warm-up"); bad = True
            # closed form of the running average (theorem hbar_closed): eps after update m = exp(mu - sqrt(m)/gamma * sum(delta - a_i)/(m+t0))
            mu = math.log(10 * rec["eps0"]); acc = 0.0
            for m, ((skip, uc, nsteps), (e_after, b_after)) in enumerate(zip(rec["tune"], rec["after"]), start=1):
                hist["tunes"] += 1
                if uc != m - 1 or nsteps != m * rec["interval"]:
                    ctx.fail(key, desc, {"update": m, "after transitions": m * rec["interval"]}, {"update_count": uc, "after transitions": nsteps},
                             "dual-averaging updates are not numbered 1,2,3,... at the tuning interval"); bad = True; break
                acc += delta - rec["alpha"][nsteps - 1]
                want = math.exp(mu - (math.sqrt(m) / 0.05) * acc / (m + 10))
                if not close(e_after, want, 1e-9):
                    ctx.fail(key, desc, {"update": m, "epsilon": want}, e_after, "step size after a dual-averaging update is not exp(mu - sqrt(k)/gamma * mean deficit)"); bad = True; break
        # ---- tie ------------------------------------------------------------------------------------------------------
        if mo == "bad-op":
            ctx.note(f"model refused adapt case {desc}"); continue
        f = [t.strip() for t in mo.split("|")]
        used = [math.exp(float(Fraction(v))) for v in pv(f[0])] if f[0] != "_" else []
        if len(used) != len(eps) or not vclose(used, eps, 1e-9):
            ctx.disagree(key, desc, {"step sizes used": used}, {"step sizes used": eps}, "sequence of step sizes used by the transitions differs")
            if not bad:
                pass
        elif iface == "exp" and f[2] != "unset" and not close(math.exp(float(Fraction(f[2]))), rec["final_bar"], 1e-9):
            ctx.disagree(key, desc, {"epsilon_bar": math.exp(float(Fraction(f[2])))}, {"epsilon_bar": rec["final_bar"]}, "final averaged step size differs")
        elif iface == "legacy" and Nb >= 1 and f[2] != "unset" and not close(math.exp(float(Fraction(f[2]))), rec["bar"][-1] if N > 1 else math.exp(float(Fraction(f[2]))), 1e-9):
            ctx.disagree(key, desc, {"epsilon_bar": math.exp(float(Fraction(f[2])))}, {"epsilon_bar": rec["bar"][-1]}, "final averaged step size differs")
        # ---- FindGoodEpsilon: which power of two is returned is not demanded by the property; a difference is noted, not alarmed
        if j["eps_given"] is None and fe_out not in ("none", "bad-op"):
            hist["findeps_compared"] += 1
            if not close(float(Fraction(fe_out)), rec["eps0"], 1e-12):
                hist["findeps_differs"] += 1
                ctx.note(f"FindGoodEpsilon: model {fe_out} vs implementation {rec['eps0']} at {desc}")
    ctx.extra_cov["c08_adapt"] = hist


class _SymU:
    """a 'symbolic' uniform draw: every use in both implementations is `rand() < p`; the comparison reports p to the
    enumerator, which explores both outcomes and weighs them p / 1-p — the exact law of a transition, no sampling"""
    __slots__ = ("en",)
    def __init__(self, en): self.en = en
    def __lt__(self, p):
        return self.en.decide(float(p))
    def __float__(self):
        raise TypeError("uniform draw used other than in `rand() < p`")


class _Enum:
    def __init__(self, prefix):
        self.prefix, self.path, self.prob, self.alts, self.ps = list(prefix), [], 1.0, [], []
    def decide(self, p):
        p = 0.0 if not (p > 0.0) else (1.0 if p >= 1.0 else p)
        i = len(self.path)
        if i < len(self.prefix):
            b = self.prefix[i]
        else:
            b = p > 0.0
            if 0.0 < p < 1.0:
                self.alts.append(self.path + [False])
        self.path.append(b); self.ps.append(p)
        self.prob *= p if b else (1.0 - p)
        return b


def transition_law(cuqi, case, iface, x, r, e):
    """exact law {next point (rounded tuple): probability} of ONE transition of the implementation from (x, r) with slice
    offset e, over all outcomes of its uniform draws (depth-first over the `rand() < p` decisions)"""
    target, _ = make_target(cuqi, case["P"], case["b"], None)
    law = {}; stack = [[]]; paths = 0; details = []
    while stack:
        prefix = stack.pop()
        en = _Enum(prefix)
        saved = (np.random.rand, np.random.standard_normal, np.random.exponential)
        np.random.rand = lambda *a: _SymU(en)
        np.random.standard_normal = lambda size=None: np.array(r, dtype=float)
        np.random.exponential = lambda scale=1.0, size=None: (np.array([e]) if size is not None else e)
        try:
            with quiet():
                if iface == "exp":
                    from cuqi.experimental.mcmc import NUTS
                    s = NUTS(target, initial_point=np.array(x, float), max_depth=case["md"], step_size=case["eps"])
                    s._ensure_initialized(); s.sample(1)
                    xn = np.asarray(s.current_point, float).ravel()
                else:
                    from cuqi.sampler import NUTS
                    s = NUTS(target, x0=np.array(x, float), max_depth=case["md"], adapt_step_size=case["eps"])
                    xn = np.asarray(s.sample(2, 0).samples[:, 1], float).ravel()
        finally:
            np.random.rand, np.random.standard_normal, np.random.exponential = saved
        paths += 1
        if en.prob > 0.0:
            k = tuple(np.round(xn, 9))
            law[k] = law.get(k, 0.0) + en.prob
            details.append((list(zip(en.path, en.ps)), xn.copy(), en.prob))
        stack.extend(en.alts)
        if paths > 3000:
            return None, paths
    transition_law.last_details = details
    return law, paths


def reversibility_case(ctx, cuqi, case, iface, e0, key):
    """returns None if the case is unusable (margins, degenerate orbit), else the number of failures reported"""
    K = 2 ** (case["md"] + 1)
    orb = float_orbit(case, 2 * K)
    if len(orb) < 4 * K + 1 or not all(np.all(np.isfinite(orb[k][0])) and abs(orb[k][2]) < 1e6 for k in orb):
        return None
    logu = orb[0][2] - e0
    hams = np.array([orb[k][2] for k in sorted(orb)])
    if np.min(np.abs(hams - logu)) < 1e-6 or np.min(np.abs(hams - logu + 1000)) < 1e-6:
        return None
    # U-turn products of every pair of orbit points must be away from 0 (the kernels from different starts recompute them)
    idx = sorted(orb)
    for a in idx:
        for b_ in idx:
            if a < b_ and b_ - a < K + 1:
                d_ = orb[b_][0] - orb[a][0]
                if min(abs(d_ @ orb[a][1]), abs(d_ @ orb[b_][1])) < 1e-7:
                    return None
    pts = {tuple(np.round(orb[k][0], 9)): k for k in idx}
    if len(pts) < len(idx):
        return None
    law0, paths = transition_law(cuqi, case, iface, orb[0][0], orb[0][1], e0)
    if law0 is None:
        return None
    desc = {"iface": iface, "P": case["P"], "b": case["b"], "x": case["x"], "r": case["r"], "eps": case["eps"], "md": case["md"], "e": e0, "paths_from_0": paths}
    nf = 0
    tot = sum(law0.values())
    if abs(tot - 1.0) > 1e-9:
        ctx.fail(key, desc, 1.0, tot, "the branch probabilities of one transition do not sum to one"); nf += 1
    P0 = {}
    for pt, pr in law0.items():
        if pt not in pts:
            ctx.fail(key, {**desc, "point": list(pt)}, "a point of the leapfrog orbit", list(pt), "the transition reaches a point off the leapfrog orbit"); nf += 1
        else:
            P0[pts[pt]] = pr
    moved = [j for j in P0 if j != 0 and P0[j] > 1e-12]
    if nf or not moved:
        return nf if nf else None
    ctx.case("orbit-reversibility", {**desc, "reached": sorted(P0)})
    # path-wise tie of the WHOLE decision tree to the executable model: every branch of the exact enumeration is replayed on
    # the model with each uniform placed 2^-30 on the taken side of the implementation's own threshold p; the model must take
    # the same branch everywhere and end in the same state (so the two transition laws coincide on this orbit)
    if case.get("center") is None and not case.get("const"):
        det = list(getattr(transition_law, "last_details", []))[:400]
        dl = 2.0 ** -30
        lines = []
        for decisions, xn, pr in det:
            us = [(0.5 if (p_ <= 0.0 or p_ >= 1.0) else (p_ - dl if b_ else p_ + dl)) for b_, p_ in decisions]
            us = [min(max(u_, 2.0 ** -40), 1 - 2.0 ** -40) for u_ in us] + [0.5] * 4
            lines.append(line_of(dict(case, us=us, e=e0, x=[float(v) for v in orb[0][0]], r=[float(v) for v in orb[0][1]]), 1))
        mouts = ctx.lean.drive(lines) if lines else []
        ntied = 0
        for (decisions, xn, pr), mo in zip(det, mouts):
            if mo in ("bad-op", "err-nonfinite-start"):
                continue
            f = [t.strip() for t in mo.split("|")]
            if float(Fraction(f[7])) < 1e-7:
                continue
            ntied += 1
            mx = [float(v) for v in pv(f[1])]
            if int(f[3]) != len(decisions) or not vclose(xn, mx, 1e-7):
                ctx.disagree(key, {**desc, "decisions": [[bool(b_), p_] for b_, p_ in decisions]}, {"next state": mx, "draws": int(f[3])},
                             {"next state": xn.tolist(), "draws": len(decisions)}, "a branch of the transition's decision tree differs from the model")
                break
        ctx.extra_cov["c08_law_paths_tied"] = ctx.extra_cov.get("c08_law_paths_tied", 0) + ntied
    for j in sorted(moved):
        if orb[j][2] < logu:
            ctx.fail(key, {**desc, "j": j}, "selected points lie in the slice", {"H_j - log u": orb[j][2] - logu}, "a point outside the slice is selected with positive probability"); nf += 1; continue
        lawj, _ = transition_law(cuqi, case, iface, orb[j][0], orb[j][1], orb[j][2] - logu)
        if lawj is None:
            continue
        back = sum(pr for pt, pr in lawj.items() if pts.get(pt) == 0)
        if abs(back - P0[j]) > 1e-9:
            ctx.fail(key, {**desc, "j": j}, {"P(0->j)": P0[j]}, {"P(j->0)": back},
                     "the transition kernel on the orbit is not reversible w.r.t. the uniform law on the in-slice points (the target is not left invariant)"); nf += 1
    return nf


def oracle_reversible(ctx, cuqi, rng, ncfg):
    """implementation-only, exact: with momentum and slice level fixed, the transition is a Markov kernel on the leapfrog
    orbit; NUTS leaves the target invariant because this kernel is reversible w.r.t. the uniform law on the in-slice orbit
    points (model side: nuts_orbit_reversible).  The law P(0 -> .) is computed exactly (symbolic uniform draws); for every j
    it reaches, the law P(j -> .) from z_j (same orbit, same absolute slice level) must return to 0 with the same probability."""
    budget = 15.0 * ncfg / 5
    for iface in ("exp", "legacy"):
        done = 0; tries = 0; t_start = time.time()
        while done < ncfg and tries < 30 * ncfg:
            tries += 1
            case = gen_tight(rng, False) if tries % 2 else gen_case(rng, False)
            case["wall"] = None; case["md"] = rng.choice([1, 2, 2, 2]); case["int_x0"] = False
            if iface == "legacy" and case["eps"] == 1.0:
                case["eps"] = 0.5
            if time.time() - t_start > budget:
                ctx.note(f"oracle_reversible: time budget reached after {done} {iface} orbits"); break
            e0 = rng.choice([1 / 16, 1 / 8, 1 / 4, 1 / 2, 1.0, 2.0])
            if reversibility_case(ctx, cuqi, case, iface, e0, f"NUTS:{iface}:reversibility") is not None:
                done += 1


def run(ctx):
    cuqi = import_cuqi()
    thorough = ctx.tier == "thorough"
    N = 6000 if thorough else 600
    rng = ctx.rng
    ctx.trusted += ["numpy float arithmetic vs exact rationals: cases whose decision margin is < 1e-7 are discarded (counted)",
                    "scripted np.random.{rand,standard_normal,exponential} (monkeypatched by the harness)"]
    ctx.assumptions += ["targets are quadratic (optionally with a NaN wall) so that the whole trajectory is exactly rational in the model"]
    oracle_integrator(ctx, cuqi, rng)
    cases = [gen_case(rng, thorough) for _ in range(N)] + [gen_tight(rng, thorough) for _ in range(N // 5)]
    # edge stream: a uniform equal to 0.0 at the top-level acceptance (numpy's rand() is half-open [0,1))
    for c in cases[: N // 8]:
        if c["wall"] is not None:
            c["us"] = [u if rng.random() > 0.3 else 0.0 for u in c["us"]]
    # far-from-origin / large-offset variants: the same dynamics translated to a centre of size 1e4..1e7, and log-densities
    # shifted by a constant of size up to 1e7 (unnormalised posteriors): no decision of the sampler may depend on either
    for c in cases:
        if c.get("int_x0") or rng.random() > 0.2:
            continue
        if rng.random() < 0.6:
            mag = rng.choice([1e4, 1e6, 1e7])
            m = [float(rng.choice([-1, 1]) * mag + rng.randint(-3, 3)) for _ in range(c["d"])]
            c["center"] = m
            c["b"] = [float(sum(Fraction(c["P"][i][j]) * Fraction(m[j]) for j in range(c["d"]))) for i in range(c["d"])]
            c["x"] = [m[i] + c["x"][i] for i in range(c["d"])]
            if c["wall"] is not None:
                c["wall"] = c["wall"] + m[0]
        if rng.random() < 0.6:
            c["const"] = rng.choice([-1e6, -1e5, 3e5, -1e7])
    jobs = []
    for i, c in enumerate(cases):
        iface = "exp" if i % 2 == 0 else "legacy"
        if iface == "legacy" and c["eps"] in (1.0,):
            c["eps"] = 0.5
        if iface == "legacy" and not c.get("int_x0") and c["wall"] is None and rng.random() < 0.25:
            c["reuse"] = [v + rng.choice([-1.5, 0.75, 2.0]) for v in c["x"]]
        jobs.append((c, iface))
    # boundary stream: the trajectory of a transition does not depend on the top-level acceptance draws, so the model's
    # trace (position of each such draw, n, n') lets the harness put that draw just below and just above n'/n
    traces = ctx.lean.drive(["trace" + line_of(c, 1)[4:] for c, iface in jobs])
    nb = 0; nb_max = 2400 if thorough else 240
    for (c, iface), tr in list(zip(jobs, traces)):
        if tr in ("_", "bad-op", "err-nonfinite-start") or c.get("reuse"):
            continue
        ents = [tuple(int(v) for v in e.split(":")) for e in tr.split(",")]
        for idx, n_, np_ in ents:
            if not (0 < np_ < n_) or idx >= len(c["us"]) or nb >= nb_max:
                continue
            k = (4096 * np_) // n_
            for kk in (k - 1 if (4096 * np_) % n_ == 0 else k, k + 1):
                if 0 < kk < 4096:
                    c2 = dict(c); c2["us"] = list(c["us"]); c2["us"][idx] = kk / 4096; c2["boundary"] = [idx, n_, np_]
                    jobs.append((c2, iface)); nb += 1
    ctx.extra_cov["boundary_variants"] = nb
    outs = ctx.lean.drive([line_of(c, 1) for c, iface in jobs])   # both interfaces carry the finiteness guard (legacy since its repair)
    n_directed = 0; n_tried = 0
    skipped = 0; hist = {"acc": 0, "rej": 0, "wall": 0, "depth": {}, "nodes_max": 0, "zero_u": 0}
    for (c, iface), mo in zip(jobs, outs):
        desc = {k: c[k] for k in ("d", "eps", "md", "x", "r", "e", "wall", "wall_kind")}; desc["iface"] = iface; desc["int_x0"] = bool(c.get("int_x0")); desc["reused_sampler_from"] = c.get("reuse"); desc["acceptance_draw_moved_to_threshold"] = c.get("boundary"); desc["center"] = c.get("center"); desc["const"] = c.get("const", 0.0)
        key = f"NUTS:{iface}:step"
        if mo in ("bad-op", "err-nonfinite-start"):
            ctx.note(f"model refused {desc}: {mo}"); continue
        f = [t.strip() for t in mo.split("|")]
        m_acc, m_x, m_nodes, m_cons, m_j, m_n, m_diffs, m_margin, m_logd, m_grad = f
        if float(Fraction(m_margin)) < 1e-7:
            skipped += 1; continue
        try:
            out = run_impl(cuqi, c, iface)
        except Exception as ex:
            ctx.disagree(key + ":crash", desc, mo[:80], repr(ex)[:200], "implementation raised"); continue
        ctx.case(f"step-{iface}", desc)
        hist["depth"][m_j] = hist["depth"].get(m_j, 0) + 1
        hist["acc" if m_acc == "1" else "rej"] += 1
        hist["wall"] += c["wall"] is not None
        hist["zero_u"] += 0.0 in c["us"][: int(m_cons)]
        hist["nodes_max"] = max(hist["nodes_max"], int(m_nodes))
        bad = oracle_transition(ctx, key, c, iface, out)
        if out.get("raised") or out["x"] is None:
            continue
        mx = [float(v) for v in pv(m_x)]
        if out["nodes"] is not None and int(m_nodes) != int(out["nodes"]):
            # The model's tree is proved to stop exactly at the first divergent leaf / first U-turning sub-tree
            # (stop_at_first, buildTree_s_eq_good, loop_skeleton).  A different number of `_BuildTree` calls for the same
            # start, momentum, slice level and draws means the implementation's trajectory did not stop there.
            ctx.fail(key + ":stop-point", {**desc, "P": c["P"], "b": c["b"], "us_head": c["us"][:10]},
                     {"tree_nodes_until_first_uturn_or_divergence": int(m_nodes)}, {"tree_nodes_built": int(out["nodes"])},
                     "the trajectory does not stop at the first U-turn / divergence (more or fewer sub-trees built than the proven stopping rule allows)")
            bad = True
        diff = None
        if not vclose(out["x"], mx, 1e-7):
            diff = ("next state", mx, out["x"].tolist())
        elif out["nodes"] is not None and int(m_nodes) != int(out["nodes"]):
            diff = ("number of tree nodes", m_nodes, out["nodes"])
        elif int(m_cons) != out["consumed"]:
            diff = ("uniform draws consumed", m_cons, out["consumed"])
        elif iface == "exp":
            if out["acc"] is not None and int(m_acc) != out["acc"]:
                diff = ("accept flag", m_acc, out["acc"])
            else:
                def term(t):
                    if t == "nan": return float("nan")
                    if t == "inf": return 1.0
                    if t == "-inf": return 0.0
                    d_ = float(Fraction(t))
                    return 1.0 if d_ > 0 else math.exp(d_)
                terms = [term(t) for t in m_diffs.split(",") if t]
                if terms:
                    stat = sum(terms) / len(terms)
                    if not close(out["alpha"], stat, 1e-7):
                        diff = ("acceptance statistic", stat, out["alpha"])
                        # this clause is itself stated by the property: mean Metropolis probability over the last doubling
                        ctx.fail(key + ":alpha-stat", desc, stat, out["alpha"], "reported acceptance statistic is not the mean Metropolis probability over the last doubling")
        if diff:
            ctx.disagree(key, {**desc, "P": c["P"], "b": c["b"], "us_head": c["us"][:10]}, {diff[0]: diff[1]}, {diff[0]: diff[2]}, diff[0] + " differs")
            if not bad and diff[0] != "acceptance statistic":
                # failing-input search near the disagreement: exhaustive uniformity of the sub-tree sampling, then give up
                before = len(ctx.failures)
                if c["wall"] is None and not c.get("reuse") and not c.get("int_x0") and n_directed < 4 and n_tried < 40:
                    # exact reversibility of the orbit kernel at this very input (momentum, slice level, step size); the depth
                    # bound is lowered to keep the exact enumeration small (the kernel must be reversible for every depth bound)
                    n_tried += 1
                    for md_ in (min(c["md"], 3), 2):
                        r_ = reversibility_case(ctx, cuqi, dict(c, md=md_), iface, c["e"], key)
                        if r_ is not None:
                            n_directed += 1
                        if r_:
                            break
                if len(ctx.failures) == before:
                    oracle_uniform(ctx, cuqi, ctx.rng, 3)
                if len(ctx.failures) > before:
                    for fl in ctx.failures[before:]:
                        fl["key"] = key   # tie the exhibited failing input to the broken correspondence
    ctx.extra_cov["c08_hist"] = hist
    ctx.extra_cov["skipped_small_margin"] = skipped
    chain_stream(ctx, cuqi, rng, 90 if not thorough else 900)
    adapt_stream(ctx, cuqi, rng, 60 if not thorough else 600)
    oracle_reversible(ctx, cuqi, rng, 5 if not thorough else 40)
    oracle_uniform(ctx, cuqi, rng, 6 if not thorough else 40)
    oracle_u0(ctx, cuqi, rng, 3 if not thorough else 20)
    oracle_divergence(ctx, cuqi, rng, 3 if not thorough else 20)
    # ---- session-3 extension streams (kept last: the random streams of the generators above are unchanged) ----
    from harness.props import c08_abort, c08_stat, c08_history, c08_config, c08_quartic, c08_gibbs
    c08_history.history_stream(ctx, cuqi, rng, 60 if not thorough else 800)
    c08_abort.interrupt_stream(ctx, cuqi, rng, 80 if not thorough else 1000)
    c08_stat.tree_stat_stream(ctx, cuqi, rng, 100 if not thorough else 2000, step_n=80 if not thorough else 1500)
    c08_quartic.quartic_stream(ctx, cuqi, rng, 50 if not thorough else 1000)
    c08_config.config_stream(ctx, cuqi, rng)
    c08_gibbs.gibbs_stream(ctx, cuqi, rng, 4 if not thorough else 40)
