"""C10 — conjugate and direct samplers draw from the exact conditional.

Correspondence (tie): the parameters of the Gamma that `Conjugate.step()` (experimental and legacy
interface, plain and regularised likelihoods) and `ConjugateApprox` actually draw from are captured
at `np.random.gamma` / `Gamma._sample` and compared with the executable Lean model
(`lean/Driver/C10.lean`) on exact rational data; the accept/reject decision of every validator
(experimental `Conjugate`, legacy `Conjugate`, both `ConjugateApprox`) is compared with the model's
decision procedure on a stream of supported and unsupported targets; `Direct` (and the chain of
`Conjugate`) is run against a counting target and compared with the model's chain.  The target's
*own* log-density along the hyper-parameter is tied to the model's kernel `tLog*log s - tLin*s`.

Oracle (implementation only): with the captured (shape, rate), `g(s) = target.logd(s) -
gamma.logpdf(s; shape, rate)` must be constant in `s`.  `g` is fitted as `A log s - B s + C` on a
dyadic grid: `A != 0` is a wrong shape, `B != 0` a wrong rate, a residual a wrong functional form.
A failure that coincides with what the faithful model predicts for a *listed* defect gets that
defect's key; anything else gets a `tie:`/`accepted:` key that no known finding matches.
"""
import math
import contextlib
import numpy as np
from fractions import Fraction
from harness.core import import_cuqi, quiet, q, qv, pq, pv, close

LOG2 = math.log(2.0)
SHAPE_TOL = 1e-12      # implementation (shape, rate) vs exact model value, relative
A_TOL = 1e-6           # fitted coefficient of log s
RES_TOL = 1e-7         # residual of the fit (relative to magnitude of the log-densities)


# ----------------------------------------------------------------------------- capture of the Gamma drawn from
class Capture:
    """While active, `np.random.gamma` returns scripted sentinels and records (shape, scale); the
    Gamma object whose `_sample` ran is recorded too."""

    def __init__(self, cuqi):
        self.cuqi = cuqi
        self.calls = []      # dicts: shape, rate (from np.random.gamma arguments), obj_shape, obj_rate
        self.k = 0

    def __enter__(self):
        G = self.cuqi.distribution.Gamma
        self._orig_sample = G._sample
        self._orig_gamma = np.random.gamma
        cap = self

        def fake_gamma(shape=None, scale=1.0, size=None):
            cap.k += 1
            val = 1000.0 + cap.k + 0.25
            if size is not None:      # like numpy: the parameter arrays must broadcast to the requested output shape
                np.broadcast_to(np.asarray(shape, dtype=float), size)
                np.broadcast_to(np.asarray(scale, dtype=float), size)
            sh = np.asarray(shape, dtype=float).ravel()
            sc = np.asarray(scale, dtype=float).ravel()
            cap.calls.append({"shape": sh.copy(), "scale": sc.copy(), "value": val, "obj": None,
                              "nvariates": int(np.prod(size)) if size is not None else int(np.broadcast(np.asarray(shape), np.asarray(scale)).size)})
            return np.full(size if size is not None else (), val)

        def spy_sample(obj, N, rng=None):
            n0 = len(cap.calls)
            out = cap._orig_sample(obj, N, rng)
            for c in cap.calls[n0:]:
                c["obj"] = (np.asarray(obj.shape, dtype=float).ravel().copy(), np.asarray(obj.rate, dtype=float).ravel().copy())
            return out

        np.random.gamma = fake_gamma
        G._sample = spy_sample
        return self

    def __exit__(self, *a):
        self.cuqi.distribution.Gamma._sample = self._orig_sample
        np.random.gamma = self._orig_gamma
        return False


def scalar(v):
    return float(np.asarray(v, dtype=float).ravel()[0])


def mk_lambda(name, body):
    """a callable with the given argument name"""
    return eval(f"lambda {name}: {body}", {"np": np})


# ----------------------------------------------------------------------------- oracle
_LOGD_TOGGLE = [0]


def logd_at(post, name, s):
    _LOGD_TOGGLE[0] += 1
    with quiet():
        v = post.logd(float(s)) if _LOGD_TOGGLE[0] % 2 else post.logd(**{name: float(s)})
    return scalar(v)


def gamma_logpdf(s, shape, rate):
    import scipy.stats as sps
    return float(sps.gamma.logpdf(s, a=shape, loc=0, scale=1.0 / rate))


def fit_gap(post, name, shape, rate):
    """g(s) = logd(s) - gammalogpdf(s); returns dict(A, B, resid, mag, finite)"""
    t = 2.0 ** round(math.log2(max(shape, 0.5) / rate)) if rate > 0 and shape > 0 else 1.0
    t = min(max(t, 2.0 ** -60), 2.0 ** 60)
    grid = [t, 2 * t, 4 * t, 0.5 * t, 3 * t, 0.75 * t]
    ld = [logd_at(post, name, s) for s in grid]
    gp = [gamma_logpdf(s, shape, rate) for s in grid]
    if not all(math.isfinite(v) for v in ld + gp):
        return {"finite": False, "ld": ld}
    g = [a - b for a, b in zip(ld, gp)]
    d2, d4 = g[1] - g[0], g[2] - g[0]
    Bt = 2 * d2 - d4
    A = (d2 + Bt) / LOG2
    B = Bt / t
    mag = 1.0 + max(abs(v) for v in ld + gp)
    resid = 0.0
    for s, gv in zip(grid[3:], g[3:]):
        pred = g[0] + A * (math.log(s) - math.log(t)) - B * (s - t)
        resid = max(resid, abs(gv - pred))
    return {"finite": True, "A": A, "B": B, "t": t, "resid": resid, "mag": mag, "grid": grid, "g": [v - g[0] for v in g]}


def a_tol(fit):
    """resolution of the fitted log-coefficient: float noise of the log-densities divided by log 2"""
    return max(A_TOL, 2e-13 * fit["mag"])


def b_tol(fit, rate):
    """resolution of the fitted rate error"""
    return 4e-13 * fit["mag"] / fit["t"] + 1e-13 * abs(rate)


# ----------------------------------------------------------------------------- stream A: supported targets
BCS = ["zero", "periodic", "neumann"]


def dyadic(rng, lo, hi, den):
    return rng.randint(lo * den, hi * den) / den


def gen_supported(ctx, thorough):
    """specs of conforming targets (the sampler must accept and draw exactly)"""
    rng = ctx.rng
    specs = []
    ngauss = 3000 if thorough else 120
    ngmrf = 5000 if thorough else 200
    for i in range(ngauss):
        n = rng.choice([1, 2, 3, 4, 5, 6, 7, 8, 10, 12, 16, 24, 40] if not thorough else list(range(1, 41)) + [80, 120])
        if i % 23 == 22:
            n = rng.choice([74, 75, 76, 77, 100])       # straddle config.MIN_DIM_SPARSE = 75 (dense / sparse storage)
        wiring = rng.choice(["cov", "prec"])
        reg = rng.random() < 0.25
        fkind = rng.choice(["id", "id", "scaled"] + (["ones"] if wiring == "prec" else []))
        k = rng.choice([-8, -5, -3, -1, 1, 2, 4, 7])
        c = (1 + k * 2.0 ** -20) if wiring == "prec" else (1 + 2.0 ** -31 * rng.choice([-1, 1]))
        meank = rng.choice(["vec", "vec", "vec", "scalar"]) if n > 1 else "vec"
        datak = "vec"
        if n > 1 and not reg and meank == "vec" and rng.random() < 0.12:
            datak = "len1"
        build = rng.choice(["posterior", "posterior", "joint", "hier"]) if (meank == "vec" and datak == "vec" and not reg) else "posterior"
        mean = [dyadic(rng, -3, 3, 4) for _ in range(n)] if meank == "vec" else [dyadic(rng, -2, 2, 4)]
        if datak == "vec":
            b = [dyadic(rng, -4, 4, 4) if rng.random() < 0.8 else 0.0 for _ in range(n)]
        else:
            b = [dyadic(rng, -4, 4, 4)]
        if i % 17 == 0:
            b = list(mean) if (meank == "vec" and datak == "vec") else b      # zero misfit
        if i % 29 == 7 and datak == "vec":
            b = [0.0] * n            # all-zero data (count_nonzero = 0 for the regularised pair)
        name = rng.choice(["s", "d", "delta", "lam"])
        dkind, pkind, scale = representation(rng, i)
        b, scale = fit_to_kind(rng, b, dkind, scale)
        if scale != 1.0:
            b = [v * scale for v in b]; mean = [v * scale for v in mean]
        specs.append({"dkind": dkind, "pkind": pkind, "fam": "gauss", "reg": reg, "wiring": wiring, "n": n, "fkind": fkind, "c": c, "meank": meank,
                      "datak": datak, "build": build, "mean": mean, "b": b, "name": name,
                      "alpha": dyadic(rng, 1, 24, 4) if rng.random() < 0.8 else 2.0 ** -rng.randint(1, 10),
                      "beta": dyadic(rng, 1, 24, 4) if rng.random() < 0.8 else 2.0 ** -rng.randint(1, 14)})
    combos = [(o, bc, pd) for o in (0, 1, 2) for bc in BCS for pd in (1, 2)]
    for i in range(ngmrf):
        o, bc, pd = combos[i % len(combos)] if i < 3 * len(combos) else rng.choice(combos)
        if pd == 1:
            n = rng.randint(2, 40 if thorough else 16)
            if i % 11 == 10:
                n = rng.randint(17, 40)
        else:
            n = rng.randint(2, 6 if thorough else 4)
        reg = rng.random() < 0.2
        if reg and pd == 2:       # RegularizedGMRF takes no geometry argument: 1-D only
            pd, n = 1, rng.randint(2, 16)
        dim = n if pd == 1 else n * n
        fkind = rng.choice(["id", "id", "scaled"])
        c = 1 + rng.choice([-8, -5, -3, -1, 1, 2, 4, 7]) * 2.0 ** -20
        meank = rng.choice(["vec", "vec", "zero"])
        mean = [dyadic(rng, -2, 2, 4) for _ in range(dim)] if meank == "vec" else [0.0] * dim
        b = [dyadic(rng, -4, 4, 4) if rng.random() < 0.8 else 0.0 for _ in range(dim)]
        if i % 19 == 18:
            b = list(mean)
        name = rng.choice(["d", "s", "delta"])
        dkind, pkind, scale = representation(rng, i)
        b, scale = fit_to_kind(rng, b, dkind, scale)
        if scale != 1.0:
            b = [v * scale for v in b]; mean = [v * scale for v in mean]
        specs.append({"dkind": dkind, "pkind": pkind, "fam": "gmrf", "reg": reg, "order": o, "bc": bc, "pd": pd, "n": n, "fkind": fkind, "c": c,
                      "meank": meank, "mean": mean, "b": b, "name": name, "build": "posterior", "datak": "vec",
                      "alpha": dyadic(rng, 1, 24, 4) if rng.random() < 0.8 else 2.0 ** -rng.randint(1, 10),
                      "beta": dyadic(rng, 1, 24, 4) if rng.random() < 0.8 else 2.0 ** -rng.randint(1, 14)})
    # ---- grids straddling config.MAX_DIM_INV = 2000 (44x44 = 1936, 45x45 = 2025): GMRF.__init__ / its helpers may switch
    # algorithm with the size; the model evaluates these by stencils (driver op `gmrfs`, theorem gmrfQuadFast_eq)
    large = [(1, "zero"), (2, "zero"), (rng.choice([0, 1]), rng.choice(["periodic", "neumann"]))]
    if thorough:
        large += [(o, bc) for o in (0, 1, 2) for bc in BCS] + [(1, "zero"), (2, "zero")]
    for j, (o, bc) in enumerate(large):
        n = rng.choice([45, 46, 47, 48, 50]) if j != 1 else rng.choice([45, 46, 48])
        dim = n * n
        meank = rng.choice(["vec", "zero"])
        mean = [dyadic(rng, -2, 2, 4) for _ in range(dim)] if meank == "vec" else [0.0] * dim
        # a smooth field plus quarter-valued noise (the regime of an image prior), exactly representable
        b = [round(4 * (3 * math.sin(0.2 * (k // n)) * math.cos(0.15 * (k % n)))) / 4 + (dyadic(rng, -1, 1, 4) if rng.random() < 0.5 else 0.0)
             for k in range(dim)]
        specs.append({"dkind": "f64", "pkind": "float", "fam": "gmrf", "reg": False, "order": o, "bc": bc, "pd": 2, "n": n, "fkind": "id", "c": 1.0,
                      "meank": meank, "mean": mean, "b": b, "name": "d", "build": "posterior", "datak": "vec", "large": True,
                      "alpha": dyadic(rng, 1, 24, 4), "beta": dyadic(rng, 1, 24, 4)})
    return specs


DKINDS = ["f64", "int", "list", "f32", "strided", "negstride", "readonly", "cuqiarray", "uint8", "int8", "bool", "f16", "int32", "intlist"]
NARROW = {"int": np.int64, "int32": np.int32, "uint8": np.uint8, "int8": np.int8, "bool": np.bool_, "f16": np.float16}


def fit_to_kind(rng, b, dkind, scale):
    """make the data values representable in the requested dtype (count-like observations for the integer kinds)"""
    if dkind in ("int", "int32", "intlist", "int8"):
        return [float(round(v)) for v in b], (max(scale, 1.0) if dkind in ("int", "intlist") else 1.0)
    if dkind == "uint8":
        return [float(abs(round(v))) for v in b], 1.0
    if dkind == "bool":
        return [float(rng.random() < 0.5) for _ in b], 1.0
    if dkind == "f16":
        return b, 1.0       # quarters in [-4, 4] are exact in float16
    return b, scale


def representation(rng, i):
    """(representation of the data array, of alpha/beta, scale factor) -- same numbers, other dtype / layout / flags"""
    dkind = DKINDS[(i // 2) % len(DKINDS)] if i % 2 == 0 else "f64"
    pkind = rng.choice(["float", "float", "int", "array1", "npfloat"])
    scale = rng.choice([1.0] * 6 + [2.0 ** -20, 2.0 ** 20, 2.0 ** -10, 2.0 ** 12])
    return dkind, pkind, scale


def as_kind(cuqi, vals, kind):
    a = np.array(vals, dtype=float)
    if kind in NARROW:
        return a.astype(NARROW[kind])
    if kind == "intlist":
        return [int(v) for v in a]
    if kind == "list":
        return [float(v) for v in a]
    if kind == "f32":
        return a.astype(np.float32) if np.array_equal(a.astype(np.float32).astype(float), a) else a
    if kind == "strided":
        big = np.full(2 * len(a), 777.0); big[::2] = a
        return big[::2]
    if kind == "negstride":
        return a[::-1].copy()[::-1]
    if kind == "readonly":
        a = a.copy(); a.setflags(write=False)
        return a
    if kind == "cuqiarray":
        return cuqi.array.CUQIarray(a, geometry=cuqi.geometry.Continuous1D(len(a)))
    return a


def par_kind(v, kind):
    if kind == "int" and float(v) == int(v):
        return int(v)
    if kind == "array1":
        return np.array([v])
    if kind == "npfloat":
        return np.float64(v)
    return float(v)


def conforming_callable(spec, iface):
    nm, c = spec["name"], spec["c"]
    w = spec.get("wiring", "prec")
    if spec["fkind"] == "id":
        return mk_lambda(nm, f"1/{nm}" if w == "cov" else nm)
    if spec["fkind"] == "ones":
        return mk_lambda(nm, f"{nm}*np.ones({spec['n']})")
    return mk_lambda(nm, f"1/({c!r}*{nm})" if w == "cov" else f"{c!r}*{nm}")


def build_supported(cuqi, spec, f):
    """returns (posterior, Ax array as held by the likelihood, f1)"""
    D = cuqi.distribution
    from cuqi.geometry import Image2D
    nm = spec["name"]
    prior = D.Gamma(par_kind(spec["alpha"], spec.get("pkind")), par_kind(spec["beta"], spec.get("pkind")), name=nm)
    b = as_kind(cuqi, spec["b"], spec.get("dkind", "f64"))
    if spec["fam"] == "gauss":
        n = spec["n"]
        kw = {spec["wiring"]: f}
        mean = np.array(spec["mean"], dtype=float)
        if spec["reg"]:
            from cuqi.implicitprior import RegularizedGaussian
            y = RegularizedGaussian(mean if len(mean) > 1 or n == 1 else mean[0], constraint="nonnegativity", name="y", geometry=n, **kw)
            return D.Posterior(y.to_likelihood(b), prior)
        if spec["build"] == "hier":
            # mean = A @ x with x conditioned: the sampler sees the evaluated forward-model output
            A = np.eye(n) + np.diag(np.ones(n - 1), 1) if n > 1 else np.eye(1)
            xval = np.linalg.solve(A, mean)
            xval = np.round(xval)               # integers; mean is redefined as A @ xval (exact)
            spec["mean"] = [float(v) for v in (A @ xval)]
            model = cuqi.model.LinearModel(A)
            x = D.Gaussian(np.zeros(n), 1, name="x")
            y = D.Gaussian(model @ x, name="y", **kw)
            return D.JointDistribution(y, x, prior)(y=b, x=xval)
        y = D.Gaussian(mean if len(mean) > 1 or n == 1 else mean[0], name="y", geometry=n, **kw)
        if spec["build"] == "joint":
            return D.JointDistribution(y, prior)(y=b)
        return D.Posterior(y.to_likelihood(b), prior)
    dim = spec["n"] if spec["pd"] == 1 else spec["n"] ** 2
    geom = {"geometry": Image2D((spec["n"], spec["n"]))} if spec["pd"] == 2 else {"geometry": dim}
    mean = np.array(spec["mean"], dtype=float)
    if spec["reg"]:
        from cuqi.implicitprior import RegularizedGMRF
        x = RegularizedGMRF(mean, prec=f, bc_type=spec["bc"], order=spec["order"], constraint="nonnegativity", name="x")
    else:
        x = D.GMRF(mean, prec=f, bc_type=spec["bc"], order=spec["order"], name="x", **geom)
    return D.Posterior(x.to_likelihood(b), prior)


def model_line(spec, f1):
    if spec["fam"] == "gauss":
        return (f"gauss {int(spec['reg'])} {spec['wiring']} {spec['n']} {q(f1)} {qv(spec['mean'])} {qv(spec['b'])} "
                f"{q(spec['alpha'])} {q(spec['beta'])}")
    return (f"{'gmrfs' if spec.get('large') else 'gmrf'} {int(spec['reg'])} {spec['order']} {spec['bc']} {spec['pd']} {spec['n']} {q(f1)} {qv(spec['mean'])} "
            f"{qv(spec['b'])} {q(spec['alpha'])} {q(spec['beta'])}")


def family_key(spec):
    if spec["fam"] == "gaussw":
        return f"{'Reg' if spec['reg'] else ''}GaussianW:{spec['wiring']}:{spec['kind']}"
    if spec["fam"] == "gauss":
        cls = "data-broadcast" if spec["datak"] == "len1" else ("sparse" if spec["n"] > 75 else "dense")
        return f"{'Reg' if spec['reg'] else ''}Gaussian:{spec['wiring']}:{cls}"
    return f"{'Reg' if spec['reg'] else ''}GMRF:{spec['bc']}:order{spec['order']}:{spec['pd']}D"


def run_sampler(cuqi, iface, post, nsteps=2, keyword=False):
    """returns (captured calls, returned/current points) of `nsteps` steps; every returned object is retained and
    read again after the last step (a later step must not overwrite an earlier result)"""
    with Capture(cuqi) as cap, quiet():
        pts, kept = [], []
        if iface == "exp":
            smp = cuqi.experimental.mcmc.Conjugate(target=post) if keyword else cuqi.experimental.mcmc.Conjugate(post)
            for _ in range(nsteps):
                acc = smp.step()
                kept.append(smp.current_point)
                pts.append((scalar(smp.current_point), acc))
        else:
            smp = cuqi.sampler.Conjugate(target=post) if keyword else cuqi.sampler.Conjugate(post)
            for _ in range(nsteps):
                r = smp.step()
                kept.append(r)
                pts.append((scalar(r), 1))
        pts = [(scalar(o), a) if scalar(o) != v else (v, a) for o, (v, a) in zip(kept, pts)]
    return cap.calls, pts


def owned_arrays(post):
    out = {}
    for k, get in (("prior.shape", lambda: post.prior.shape), ("prior.rate", lambda: post.prior.rate),
                   ("likelihood.data", lambda: post.likelihood.data), ("likelihood.mean", lambda: post.likelihood.distribution.mean)):
        try:
            v = get()
            if not callable(v):
                a = np.asarray(v)
                out[k] = (str(a.dtype), a.shape, a.tobytes())
        except Exception:
            pass
    return out


def stream_supported(ctx, cuqi, thorough):
    specs = gen_supported(ctx, thorough)
    built = []
    for spec in specs:
        try:
            f = conforming_callable(spec, "exp")
            with quiet():
                post = build_supported(cuqi, spec, f)
                f1 = scalar(f(np.array([1])))
            built.append((spec, post, f1))
        except Exception as e:  # the library refuses to build this target: nothing is sampled
            ctx.note(f"target construction refused: {family_key(spec)} n={spec['n']}: {repr(e)[:100]}")
    outs = ctx.lean.drive([model_line(s, f1) for s, _, f1 in built])
    hist = ctx.extra_cov.setdefault("supported_families", {})
    for (spec, post, f1), out in zip(built, outs):
        fk = family_key(spec)
        hist[fk] = hist.get(fk, 0) + 1
        desc = {k: spec[k] for k in spec if k not in ("mean", "b")}
        desc.update({"mean": spec["mean"][:6], "b": spec["b"][:6], "f1": f1})
        for iface in ("exp", "leg"):
            ctx.case(f"sample-{iface}-{spec['fam']}{'-reg' if spec['reg'] else ''}", desc, nontrivial=True)
            tie_key = f"tie:{iface}:{fk}"
            snap0 = owned_arrays(post)
            try:
                calls, pts = run_sampler(cuqi, iface, post, nsteps=ctx.rng.choice([1, 2, 3]), keyword=ctx.rng.random() < 0.5)
                impl_err = None
            except Exception as e:
                calls, pts, impl_err = [], [], f"{type(e).__name__}: {str(e)[:100]}"
            # caller- / prior-owned parameter arrays (prior shape, rate; likelihood data, mean) byte-compared across the draws;
            # the second interface then runs on the same posterior object (several samplers on one posterior)
            changed = [k for k, v in owned_arrays(post).items() if snap0.get(k) != v]
            oc = ctx.extra_cov.setdefault("owned_arrays_compared", {"unchanged": 0, "changed": 0})
            oc["changed" if changed else "unchanged"] += 1
            if changed:
                ctx.disagree(tie_key + ":owned-arrays", desc, "prior.shape / prior.rate / data / mean untouched by step()", changed,
                             "a step modified an array owned by the caller / the prior in place")
                drift = [(float(c["shape"][0]), 1.0 / float(c["scale"][0])) for c in calls]
                if len(set(drift)) > 1:
                    ctx.fail(tie_key + ":owned-arrays", desc, "every step of a fixed target draws from the same Gamma", drift,
                             "in-place modification of " + ",".join(changed) + ": successive draws come from different Gammas")
            if out in ("err", "bad-op") or impl_err:
                if out == "bad-op":
                    raise RuntimeError(f"driver rejected line for {desc}")
                if (out == "err") != bool(impl_err):
                    ctx.disagree(tie_key + ":refusal", desc, out[:40], impl_err or "sampled", "one side refuses the target")
                    if not impl_err:
                        check_exactness(ctx, tie_key + ":refusal", None, desc, spec, post, calls, None, force=True)
                continue
            toks = out.split()
            m_shape, m_rate, m_tlog, m_tlin = (pq(t) for t in toks[:4])
            model = {"shape": m_shape, "rate": m_rate, "tlog": m_tlog, "tlin": m_tlin}
            # --- the draw: every step's point is the scripted gamma variate of a fresh Gamma
            ok_calls = len(calls) == len(pts) and all(len(c["shape"]) == 1 and len(c["scale"]) == 1 for c in calls)
            if not ok_calls or not calls:
                ctx.disagree(tie_key + ":draw", desc, "one scalar gamma draw per step", f"{len(calls)} gamma draws for {len(pts)} steps")
                ctx.fail(tie_key + ":draw", desc, "each step returns one draw of Gamma(shape, rate)", f"{len(calls)} draws recorded",
                         "the step does not draw from a (scalar) Gamma distribution")
                continue
            for c, (pt, acc) in zip(calls, pts):
                if pt != c["value"] or acc != 1:
                    ctx.disagree(tie_key + ":draw", desc, "point = the gamma variate, acc = 1", [pt, c["value"], acc])
                    ctx.fail(tie_key + ":draw", desc, "the returned point is the Gamma draw itself", [pt, c["value"], acc],
                             "the sampler returns something other than its Gamma draw")
                    break
            c0 = calls[0]
            shape, rate = float(c0["shape"][0]), 1.0 / float(c0["scale"][0])
            if c0["obj"] is not None:
                shape, rate = float(c0["obj"][0][0]), float(c0["obj"][1][0])
            same = close(shape, m_shape, SHAPE_TOL) and close(rate, m_rate, SHAPE_TOL)
            if same:
                tm = ctx.extra_cov.setdefault("tie_params_max_fraction_of_tolerance", {"rate": 0.0})
                tm["rate"] = max(tm["rate"], abs(rate - float(m_rate)) / (SHAPE_TOL * (1.0 + max(abs(rate), abs(float(m_rate))))))
            if not same:
                ctx.disagree(tie_key + ":params", desc, [str(m_shape), str(m_rate)], [shape, rate], "Gamma(shape, rate) drawn from differs from the model")
            steady = all(close(float(c["shape"][0]), shape, 1e-15) and close(1.0 / float(c["scale"][0]), rate, 1e-13) for c in calls)
            if not steady:
                ctx.disagree(tie_key + ":params", desc, "same Gamma at every step of a fixed target", "parameters drift between steps")
                ctx.fail(tie_key + ":params", desc, "same conditional at every step", "drift", "Gamma parameters change between steps of a fixed target")
            if spec["reg"]:
                continue        # projected posterior has no density to compare with (tie only)
            check_exactness(ctx, tie_key + ":params", f"{iface}:{fk}", desc, spec, post, calls, model, force=not same)
    stream_retarget(ctx, cuqi, built, outs)
    stream_conjugate_histories(ctx, cuqi, built, outs)


def stream_retarget(ctx, cuqi, built, outs):
    """one experimental sampler object, target re-assigned: every step uses the *current* target's conditional"""
    ok = [(s, p, o) for (s, p, _), o in zip(built, outs) if o not in ("err", "bad-op")]
    rng = ctx.rng
    for _ in range(min(30 * ctx.scale, len(ok) // 2)):
        seq = [ok[rng.randrange(len(ok))] for _ in range(rng.randint(2, 4))]
        desc = {"retarget": [family_key(s) for s, _, _ in seq]}
        ctx.case("retarget-exp", desc)
        key = "tie:exp:retarget"
        try:
            with Capture(cuqi) as cap, quiet():
                smp = cuqi.experimental.mcmc.Conjugate(seq[0][1])
                smp.step()
                for _, post, _ in seq[1:]:
                    smp.target = post
                    smp.step()
        except Exception as e:
            ctx.disagree(key, desc, "steps", repr(e)[:100], "re-assigning a valid target raised")
            continue
        got = [(float(c["shape"][0]), 1.0 / float(c["scale"][0])) for c in cap.calls]
        want = [(pq(o.split()[0]), pq(o.split()[1])) for _, _, o in seq]
        if len(got) != len(want) or not all(close(g[0], w[0], SHAPE_TOL) and close(g[1], w[1], SHAPE_TOL) for g, w in zip(got, want)):
            ctx.disagree(key, desc, [[str(a), str(b)] for a, b in want], got, "after re-assignment the Gamma is not that of the current target")
            ctx.fail(key, desc, [[float(a), float(b)] for a, b in want], got, "a step after target re-assignment does not draw from the current target's conditional")


def check_exactness(ctx, tie_key, known_base, desc, spec, post, calls, model, force=False):
    """ORACLE on the implementation: density of the Gamma drawn from ∝ target density along the hyper-parameter."""
    if not calls:
        return
    c0 = calls[0]
    shape, rate = float(c0["shape"][0]), 1.0 / float(c0["scale"][0])
    try:
        fit = fit_gap(post, spec["name"], shape, rate)
    except Exception as e:
        ctx.note(f"target.logd refused at {desc.get('fam')}: {repr(e)[:80]}")
        return
    if not fit["finite"]:
        h = ctx.extra_cov.setdefault("oracle_skipped_nonfinite_logd", {})
        h[family_key(spec)] = h.get(family_key(spec), 0) + 1
        return
    btol = b_tol(fit, rate)
    A, B = fit["A"], fit["B"]
    if model is not None:
        # tie of the target's own density: A, B predicted by the model
        A_m = float(model["tlog"] - (model["shape"] - 1))
        B_m = float(model["tlin"] - model["rate"])
        # (computed from the *implementation's* shape/rate so that a wrong sampler does not blur the target tie)
        A_t = float(model["tlog"]) - (shape - 1)
        B_t = float(model["tlin"]) - rate
        if abs(A - A_t) > a_tol(fit) or abs(B - B_t) > max(btol, 1e-9 * abs(B_t)) or fit["resid"] > RES_TOL * fit["mag"]:
            k = tie_key.replace(":params", "") + ":target-kernel"
            ctx.disagree(k, desc, {"tLog": str(model["tlog"]), "tLin": str(model["tlin"])}, {"A": A, "B": B, "resid": fit["resid"]},
                         "target.logd along the hyper-parameter is not the model's kernel")
    else:
        A_m = B_m = None
    bad_shape = abs(A) > a_tol(fit)
    bad_rate = abs(B) > btol
    bad_form = fit["resid"] > RES_TOL * fit["mag"]
    if not (bad_shape or bad_rate or bad_form):
        # margins of the passing cases: largest observed deviation as a fraction of its tolerance (flakiness monitor)
        mg = ctx.extra_cov.setdefault("oracle_margins_max_fraction_of_tolerance", {"A": 0.0, "B": 0.0, "resid": 0.0})
        mg["A"] = max(mg["A"], abs(A) / a_tol(fit))
        mg["B"] = max(mg["B"], abs(B) / btol if btol > 0 else 0.0)
        mg["resid"] = max(mg["resid"], fit["resid"] / (RES_TOL * fit["mag"]))
        return
    demanded = "target.logd(s) - log gammapdf(s; shape, rate) constant in s"
    got = {"shape": shape, "rate": rate, "A(log s coeff)": A, "B(-s coeff)": B, "resid": fit["resid"], "grid": fit["grid"], "g-g0": fit["g"]}
    if bad_form:
        ctx.fail(tie_key, desc, demanded, got, "density drawn from is not proportional to the target (wrong functional form)")
        return
    if bad_shape:
        listed = known_base is not None and A_m is not None and abs(A - A_m) <= a_tol(fit) and not force
        key = f"{known_base}:shape:m-r={round(-2 * A)}" if listed else tie_key
        ctx.fail(key, desc, demanded, got, "shape of the Gamma drawn from is not (rank/2 + alpha) of the target's own density")
    if bad_rate:
        listed = known_base is not None and B_m is not None and abs(B - B_m) <= max(btol, 1e-6 * abs(B_m)) and not force
        key = f"{known_base}:rate:regularisation" if listed else tie_key
        ctx.fail(key, desc, demanded, got, "rate of the Gamma drawn from is not (quadratic form/2 + beta) of the target's own density")


# ----------------------------------------------------------------------------- stream B: validators
POLY = "(({x}-1)*({x}-10)*({x}-100))**2"


def dependences(rng, thorough):
    """(label, key, body-template in {x}, conforming?)  — scalar dependences on the hyper-parameter"""
    deps = [
        ("recip", "cov", "1/{x}", True), ("ident", "prec", "{x}", True),
        ("ident", "cov", "{x}", False), ("recip-sq", "cov", "1/{x}**2", False), ("recip-sqrt", "cov", "1/np.sqrt({x})", False),
        ("two-recip", "cov", "2/{x}", False), ("recip-shift", "cov", "1/({x}+1)", False), ("const", "cov", "1.0+0*{x}", False),
        ("recip-near", "cov", "1/(1.00000001*{x})", False),
        ("two", "prec", "2*{x}", False), ("square", "prec", "{x}**2", False), ("sqrt", "prec", "np.sqrt({x})", False),
        ("recip", "prec", "1/{x}", False), ("shift", "prec", "{x}+1", False), ("const", "prec", "1.0+0*{x}", False),
        ("near", "prec", "1.00003*{x}", False), ("tol-in", "prec", "1.0000099*{x}", True), ("tol-out", "prec", "1.0000102*{x}", False),
        ("tol-in", "cov", "1/(1.0000000009*{x})", True), ("tol-out", "cov", "1/(1.0000000012*{x})", False), ("cube", "prec", "{x}**3", False), ("half", "prec", "0.5*{x}", False),
        ("interp", "prec", "{x}*(1+" + POLY + "/1e6)", False), ("interp", "cov", "1/({x}*(1+" + POLY + "/1e6))", False),
        ("pow1.000001", "prec", "{x}**1.000001", False),
    ]
    extra = 150 if thorough else 8
    for _ in range(extra):
        c = rng.choice([1, 1, 2, 0.5, 1 + 2.0 ** -18, 1 - 2.0 ** -16, 3])
        p = rng.choice([-2, -1, 1, 2, 3])
        key = rng.choice(["cov", "prec"])
        conf = (c == 1 and ((key == "cov" and p == -1) or (key == "prec" and p == 1)))
        deps.append((f"pow:c={c!r}:p={p}", key, f"{c!r}*{{x}}**({p}.0)", conf))
    return deps


def probes_of(f):
    out = []
    for x in (1.0, 10.0, 100.0):
        v = np.asarray(f(x), dtype=float).ravel()
        out.append(qv(v))
    return "|".join(out)


def var_tok(key, attr, par):
    if not callable(attr):
        return f"{key}:0:0:-"
    import inspect
    has = par in [k for k, p in inspect.signature(attr).parameters.items() if p.default is inspect._empty and k not in ("args", "kwargs")]
    try:
        pr = probes_of(attr) if has else "-"
    except Exception:
        pr = "-"
    return f"{key}:1:{int(has)}:{pr}"


def classify(e, approx=False):
    """verdict name of an exception raised by a validator"""
    msg, t = str(e), type(e).__name__
    if t == "AttributeError":
        return "attrError"
    if t == "TypeError":
        if "requires a target of type Posterior" in msg:
            return "notPosterior"
        if "length-1 arrays" in msg or "size-1 arrays" in msg or "only length-1" in msg:
            return "probeType"
        return "TypeError:" + msg[:50]
    if t != "ValueError":
        return t + ":" + msg[:50]
    table = [("Conjugacy is not defined", "noPair"), ("univariate Gamma prior", "gammaDim"), ("nonnegativity constraints", "preset"),
             ("Unable to find conjugate parameter", "notFound"), ("Multiple references", "multiple"),
             ("only works when conjugate parameter is defined via covariance or precision", "badKey"),
             ("No approximate conjugacy defined", "badKey"), ("zero mean LMRF", "locNonzero"),
             ("inverse of the scale parameter", "notReciprocal"), ("requires `cov`", "notReciprocal"), ("requires cov:", "notReciprocal"),
             ("requires `prec`", "notIdentity"), ("requires prec:", "notIdentity"),
             ("Gaussian-type likelihood", "likType"), ("Laplace diff likelihood", "likType"), ("only works with Gamma prior", "priorType")]
    for pat, v in table:
        if pat in msg:
            return v
    return "ValueError:" + msg[:50]


def gen_validation(ctx, cuqi, thorough):
    """list of (label, builder() -> target, model description dict, conforming?, family) for the validator stream"""
    D = cuqi.distribution
    from cuqi.implicitprior import RegularizedGaussian, RegularizedGMRF
    rng = ctx.rng
    items = []

    def gamma(nm, dim=1, how="geometry"):
        """Gamma prior; non-scalar in three ways: vector shape, vector rate, or scalar parameters with geometry=dim"""
        if dim == 1:
            return D.Gamma(2.0, 3.0, name=nm)
        if how == "shape":
            return D.Gamma(2.0 * np.ones(dim), 3.0, name=nm)
        if how == "rate":
            return D.Gamma(2.0, 3.0 * np.ones(dim), name=nm)
        return D.Gamma(2.0, 3.0, geometry=dim, name=nm)

    def add(label, lik, mk, conforming, fam, vars_of=None, prior_gamma=True, prior_dim=1, preset=True, loc0=True, is_post=True, par="s", outside=None):
        items.append({"label": label, "outside": outside, "lik": lik, "mk": mk, "conforming": conforming, "fam": fam, "vars_of": vars_of,
                      "prior_gamma": prior_gamma, "prior_dim": prior_dim, "preset": preset, "loc0": loc0, "is_post": is_post, "par": par})

    n = 3
    b = np.array([1.0, 0.0, 2.5])
    for label, key, body, conf in dependences(rng, thorough):
        nm = rng.choice(["s", "d"])
        f = mk_lambda(nm, body.format(x=nm))
        # outside the supported structure, unless it is the supported form times a constant (c*s, 1/(c*s): still drawn
        # exactly because c enters through L at s = 1 -- acceptance of those is left to the oracle)
        scaled = label in ("two", "half", "near", "two-recip", "recip-near", "tol-out") or \
            (label.startswith("pow:") and label.endswith(":p=1" if key == "prec" else ":p=-1"))
        outside = None if (conf or scaled) else "dependence"
        # Gaussian
        def mkG(f=f, key=key, nm=nm):
            y = D.Gaussian(np.zeros(n), name="y", **{key: f})
            return D.Posterior(y.to_likelihood(b), gamma(nm)), [("mean", y.mean), (key, f)]
        add(f"gaussian:{key}:{label}", "gaussian", mkG, conf, "gauss", par=nm, outside=outside)
        # Regularised Gaussian
        def mkR(f=f, key=key, nm=nm):
            y = RegularizedGaussian(np.zeros(n), constraint="nonnegativity", name="y", **{key: f})
            return D.Posterior(y.to_likelihood(b), gamma(nm)), [("mean", y.mean), (key, f)]
        add(f"reggaussian:{key}:{label}", "reggaussian", mkR, conf, "reg", par=nm, outside=outside)
        if key == "prec":
            for bc in ["zero"]:   # the boundary condition plays no role in validation; periodic/neumann sampling is stream A
                def mkM(f=f, nm=nm, bc=bc):
                    x = D.GMRF(np.zeros(n), prec=f, bc_type=bc, name="x")
                    return D.Posterior(x.to_likelihood(b), gamma(nm)), [("mean", x.mean), ("prec", f)]
                add(f"gmrf:{bc}:prec:{label}", "gmrf", mkM, conf, "gmrf", par=nm, outside=outside)
            def mkRM(f=f, nm=nm):
                x = RegularizedGMRF(np.zeros(n), prec=f, constraint="nonnegativity", name="x")
                return D.Posterior(x.to_likelihood(b), gamma(nm)), [("mean", x.mean), ("prec", f)]
            add(f"reggmrf:prec:{label}", "reggmrf", mkRM, conf, "reg", par=nm, outside=outside)
        # LMRF (approximate sampler's pair): scale = f
        def mkL(f=f, nm=nm):
            x = D.LMRF(0, f, geometry=n, name="x")
            return D.Posterior(x.to_likelihood(b), gamma(nm)), [("location", x.location), ("scale", f)]
        add(f"lmrf:scale:{label}", "lmrf", mkL, False, "lmrf", par=nm)

    # non-scalar values of the callable
    def mkVecPrec():
        f = lambda s: s * np.ones(n)
        y = D.Gaussian(np.zeros(n), prec=f, name="y")
        return D.Posterior(y.to_likelihood(b), gamma("s")), [("mean", y.mean), ("prec", f)]
    add("gaussian:prec:s*ones", "gaussian", mkVecPrec, True, "gauss")
    def mkMatPrec():
        f = lambda s: s * np.eye(n)
        y = D.Gaussian(np.zeros(n), prec=f, name="y")
        return D.Posterior(y.to_likelihood(b), gamma("s")), [("mean", y.mean), ("prec", f)]
    add("gaussian:prec:s*eye", "gaussian", mkMatPrec, True, "gauss")   # s*I is the supported structure written as a matrix: conforming
    def mkVecCov():
        f = lambda s: (1 / s) * np.ones(n)
        y = D.Gaussian(np.zeros(n), cov=f, name="y")
        return D.Posterior(y.to_likelihood(b), gamma("s")), [("mean", y.mean), ("cov", f)]
    add("gaussian:cov:(1/s)*ones", "gaussian", mkVecCov, True, "gauss")
    def mkWeighted():
        f = lambda s: s * np.array([1.0, 2.0, 3.0])
        y = D.Gaussian(np.zeros(n), prec=f, name="y")
        return D.Posterior(y.to_likelihood(b), gamma("s")), [("mean", y.mean), ("prec", f)]
    add("gaussian:prec:s*weights", "gaussian", mkWeighted, True, "gauss")   # still conjugate (s times a fixed matrix)
    # other keys
    for key, body in (("sqrtprec", "np.sqrt(s)"), ("sqrtcov", "1/np.sqrt(s)"), ("sqrtprec", "s"), ("sqrtcov", "1/s")):
        f = mk_lambda("s", body)
        def mkK(f=f, key=key):
            y = D.Gaussian(np.zeros(n), name="y", **{key: f})
            return D.Posterior(y.to_likelihood(b), gamma("s")), [("mean", y.mean), (key, f)]
        add(f"gaussian:{key}:{body}", "gaussian", mkK, body in ("np.sqrt(s)", "1/np.sqrt(s)"), "gauss", outside="unsupported-key")
    # mean depends on the hyper-parameter (alone, and together with cov)
    def mkMeanOnly():
        fm = lambda s: s * np.ones(n)
        y = D.Gaussian(fm, 1.0, geometry=n, name="y")
        return D.Posterior(y.to_likelihood(b), gamma("s")), [("mean", fm), ("cov", y.cov)]
    add("gaussian:mean-only", "gaussian", mkMeanOnly, False, "gauss", outside="unsupported-key")
    def mkMulti():
        fm = lambda s: s * np.ones(n)
        fc = lambda s: 1 / s
        y = D.Gaussian(fm, fc, geometry=n, name="y")
        return D.Posterior(y.to_likelihood(b), gamma("s")), [("mean", fm), ("cov", fc)]
    add("gaussian:multi(mean,cov)", "gaussian", mkMulti, False, "gauss", outside="several-occurrences")
    def mkMultiGMRF():
        fm = lambda d: d * np.ones(n)
        fp = lambda d: d
        x = D.GMRF(fm, fp, geometry=n, name="x")
        return D.Posterior(x.to_likelihood(b), gamma("d")), [("mean", fm), ("prec", fp)]
    add("gmrf:multi(mean,prec)", "gmrf", mkMultiGMRF, False, "gmrf", par="d", outside="several-occurrences")
    # wrong parameter name
    def mkName():
        f = lambda d: 1 / d
        y = D.Gaussian(np.zeros(n), f, name="y")
        return D.Posterior(y.to_likelihood(b), gamma("s")), [("mean", y.mean), ("cov", f)]
    add("gaussian:wrong-name", "gaussian", mkName, False, "gauss")
    # non-scalar Gamma, in all three ways: vector shape, vector rate, scalar parameters with geometry=dim
    for dim in (2, 3):
        for how in ("geometry", "shape", "rate"):
            tag = f"gamma-dim{dim}-by-{how}"
            def mkDim(dim=dim, how=how):
                f = lambda s: 1 / s
                y = D.Gaussian(np.zeros(n), f, name="y")
                return D.Posterior(y.to_likelihood(b), gamma("s", dim, how)), [("mean", y.mean), ("cov", f)]
            add(f"gaussian:{tag}", "gaussian", mkDim, False, "gauss", prior_dim=dim, outside="non-scalar-gamma")
            def mkDimM(dim=dim, how=how):
                f = lambda s: s
                x = D.GMRF(np.zeros(n), f, name="x")
                return D.Posterior(x.to_likelihood(b), gamma("s", dim, how)), [("mean", x.mean), ("prec", f)]
            add(f"gmrf:{tag}", "gmrf", mkDimM, False, "gmrf", prior_dim=dim, outside="non-scalar-gamma")
            def mkDimR(dim=dim, how=how):
                f = lambda s: s
                y = RegularizedGaussian(np.zeros(n), prec=f, constraint="nonnegativity", name="y")
                return D.Posterior(y.to_likelihood(b), gamma("s", dim, how)), [("mean", y.mean), ("prec", f)]
            add(f"reggaussian:{tag}", "reggaussian", mkDimR, False, "reg", prior_dim=dim, outside="non-scalar-gamma")
            def mkDimL(dim=dim, how=how):
                f = lambda s: 1 / s
                x = D.LMRF(0, f, geometry=n, name="x")
                return D.Posterior(x.to_likelihood(b), gamma("s", dim, how)), [("location", x.location), ("scale", f)]
            add(f"lmrf:{tag}", "lmrf", mkDimL, False, "lmrf", prior_dim=dim, outside="non-scalar-gamma")
    # other priors / likelihoods
    def mkPriorG():
        f = lambda s: 1 / s
        y = D.Gaussian(np.zeros(n), f, name="y")
        return D.Posterior(y.to_likelihood(b), D.Gaussian(1.0, 1.0, name="s")), [("mean", y.mean), ("cov", f)]
    add("gaussian:prior-gaussian", "gaussian", mkPriorG, False, "gauss", prior_gamma=False)
    def mkPriorLN():
        f = lambda s: s
        x = D.GMRF(np.zeros(n), f, name="x")
        return D.Posterior(x.to_likelihood(b), D.Lognormal(0.0, 1.0, name="s")), [("mean", x.mean), ("prec", f)]
    add("gmrf:prior-lognormal", "gmrf", mkPriorLN, False, "gmrf", prior_gamma=False)
    def mkLap():
        f = lambda s: 1 / s
        x = D.Laplace(np.zeros(n), f, name="x")
        return D.Posterior(x.to_likelihood(b), gamma("s")), [("location", x.location), ("scale", f)]
    add("laplace:scale", "other", mkLap, False, "other")
    def mkCauchy():
        f = lambda s: 1 / s
        x = D.Cauchy(np.zeros(n), f, name="x")
        return D.Posterior(x.to_likelihood(b), gamma("s")), [("location", x.location), ("scale", f)]
    add("cauchy:scale", "other", mkCauchy, False, "other")
    def mkCMRF():
        f = lambda s: 1 / s
        x = D.CMRF(0, f, geometry=n, name="x")
        return D.Posterior(x.to_likelihood(b), gamma("s")), [("location", x.location), ("scale", f)]
    add("cmrf:scale", "other", mkCMRF, False, "other")
    def mkLogn():
        f = lambda s: 1 / s
        x = D.Lognormal(np.zeros(n), f, name="x")
        return D.Posterior(x.to_likelihood(np.array([1.0, 0.5, 2.5])), gamma("s")), [("mean", x.mean), ("cov", f)]
    add("lognormal:cov", "other", mkLogn, False, "other")
    def mkUnif():
        f = lambda s: 3 + 1 / s
        x = D.Uniform(np.zeros(n), f, name="x")
        return D.Posterior(x.to_likelihood(b), gamma("s")), [("low", x.low), ("high", f)]
    add("uniform:high", "other", mkUnif, False, "other")
    # regularised presets
    for cons, reg in (("box", None), (None, "l1")):
        def mkBox(cons=cons, reg=reg):
            f = lambda s: 1 / s
            kw = {"constraint": cons} if cons else {"regularization": reg, "strength": 1.0}
            if cons == "box":
                kw.update({"lower_bound": 0.0, "upper_bound": 1.0})
            y = RegularizedGaussian(np.zeros(n), f, name="y", **kw)
            return D.Posterior(y.to_likelihood(b), gamma("s")), [("mean", y.mean), ("cov", f)]
        add(f"reggaussian:preset-{cons or reg}", "reggaussian", mkBox, False, "reg", preset=False)
    # LMRF location
    for loc, lz in (([1.0, 1.0, 0.0], False), ([1.0, -1.0, 0.0], True)):
        def mkLoc(loc=loc):
            f = lambda s: 1 / s
            x = D.LMRF(np.array(loc), f, geometry=n, name="x")
            return D.Posterior(x.to_likelihood(b), gamma("s")), [("location", x.location), ("scale", f)]
        add(f"lmrf:location-sum{'0' if lz else 'nonzero'}", "lmrf", mkLoc, False, "lmrf", loc0=lz)
    # not a posterior
    add("not-posterior:gaussian", "gaussian", lambda: (D.Gaussian(np.zeros(n), 1.0), []), False, "other", is_post=False, prior_gamma=False)
    add("not-posterior:gamma", "other", lambda: (D.Gamma(1.0, 1.0), []), False, "other", is_post=False, prior_gamma=False)
    return items


def stream_validation(ctx, cuqi, thorough):
    E, L = cuqi.experimental.mcmc, cuqi.sampler
    items = gen_validation(ctx, cuqi, thorough)
    ifaces = {"exp": E.Conjugate, "leg": L.Conjugate, "approx": E.ConjugateApprox, "approxleg": L.ConjugateApprox}
    lines, meta = [], []
    for it in items:
        try:
            with quiet():
                target, vars_ = it["mk"]()
        except Exception as e:
            ctx.note(f"validator stream: could not build {it['label']}: {repr(e)[:100]}")
            continue
        vtoks = " ".join(var_tok(k, a, it["par"]) for k, a in vars_)
        for iface in ifaces:
            lines.append(f"validate {iface} {int(it['is_post'])} {it['lik']} {int(it['prior_gamma'])} {it['prior_dim']} "
                         f"{int(it['preset'])} {int(it['loc0'])} {vtoks}".rstrip())
            meta.append((it, iface, target))
    outs = ctx.lean.drive(lines)
    hist = ctx.extra_cov.setdefault("validator_verdicts", {})
    for (it, iface, target), out in zip(meta, outs):
        if out == "bad-op":
            raise RuntimeError(f"driver rejected validate line for {it['label']}")
        desc = {"validator": iface, "target": it["label"], "conforming": it["conforming"]}
        ctx.case(f"validate-{iface}", desc)
        smp = None
        try:
            with quiet():
                smp = ifaces[iface](target)
            impl = "ok"
        except Exception as e:
            impl = classify(e)
        hist[f"{iface}:{impl}"] = hist.get(f"{iface}:{impl}", 0) + 1
        tie_key = f"tie:validate:{iface}:{it['label']}"
        if impl != out:
            ctx.disagree(tie_key, desc, out, impl, "validator decision differs from the model's decision procedure")
        if impl == "ok" and (it["outside"] or it["fam"] in ("lmrf", "other")):
            structural_oracle(ctx, cuqi, it, iface, out, smp, target, tie_key, desc)
        if impl != "ok" or iface.startswith("approx") or it["fam"] in ("reg", "lmrf", "other"):
            continue
        # accepted by an exact conjugate sampler: it must then draw exactly (ORACLE on the implementation)
        try:
            with Capture(cuqi) as cap, quiet():
                if iface == "exp":
                    smp.step()
                else:
                    smp.step()
            calls = cap.calls
        except Exception as e:
            hist[f"{iface}:late-refusal"] = hist.get(f"{iface}:late-refusal", 0) + 1
            continue     # refused at the first step: nothing is sampled
        if not calls or len(calls[0]["shape"]) != 1:
            continue
        shape, rate = float(calls[0]["shape"][0]), 1.0 / float(calls[0]["scale"][0])
        try:
            fit = fit_gap(target, it["par"], shape, rate)
        except Exception as e:
            ctx.note(f"target.logd refused for accepted target {it['label']}: {repr(e)[:80]}")
            continue
        if not fit["finite"]:
            continue
        bad = abs(fit["A"]) > a_tol(fit) or abs(fit["B"]) > b_tol(fit, rate) or fit["resid"] > RES_TOL * fit["mag"]
        if bad:
            if iface == "leg":
                key = f"leg:no-validation:{it['label']}"
            elif ":interp" in it["label"] or ":pow1.000001" in it["label"]:
                key = f"exp:probe-only-validation:{it['label']}"
            else:
                key = tie_key if impl != out else f"accepted:{iface}:{it['label']}"
            ctx.fail(key, desc, "unsupported dependence rejected, or drawn exactly",
                     {"accepted": True, "shape": shape, "rate": rate, "A": fit["A"], "B": fit["B"], "resid": fit["resid"], "g-g0": fit["g"]},
                     "a posterior outside the conjugate structure is accepted and sampled from a Gamma that is not proportional to it")
    stream_reassign(ctx, cuqi, meta, outs)
    stream_gibbs(ctx, cuqi)


def gap_of(target, par, call):
    """kernel gap of one captured scalar Gamma draw against target.logd; None when not evaluable"""
    if call is None or len(call["shape"]) != 1:
        return None
    try:
        shape, rate = float(call["shape"][0]), 1.0 / float(call["scale"][0])
        fit = fit_gap(target, par, shape, rate)
        if not fit["finite"]:
            return None
        const = not (abs(fit["A"]) > a_tol(fit) or abs(fit["B"]) > b_tol(fit, rate) or fit["resid"] > RES_TOL * fit["mag"])
        return {"shape": shape, "rate": rate, "A(log s)": fit["A"], "B(-s)": fit["B"], "resid": fit["resid"], "g-g0": fit["g"], "constant": const}
    except Exception as e:
        return {"target_logd": repr(e)[:80]}


def stream_reassign(ctx, cuqi, meta, outs):
    """ONE sampler instance: valid target -> unsupported target (every class of the validator stream) -> valid target.
    The structural oracle runs after every assignment: an unsupported target must raise on assignment exactly as on
    construction (its acceptance is the failing input, exhibited with the Gamma then drawn against the target kernel);
    after the final valid assignment the Gamma drawn must be the one a fresh sampler draws for that target, and
    proportional to it."""
    D = cuqi.distribution
    E = cuqi.experimental.mcmc
    from cuqi.implicitprior import RegularizedGaussian
    n = 3

    def valid(kind, k):
        data = np.array([1.0, 0.5 * k, 2.5 - k])
        pri = D.Gamma(2.0 + k, 3.0, name="s")
        if kind == "lmrf":
            x = D.LMRF(0, lambda s: 1 / s, geometry=n, name="x")
        elif kind == "reg":
            x = RegularizedGaussian(np.zeros(n), cov=lambda s: 1 / s, constraint="nonnegativity", name="x")
        elif kind == "gmrf":
            x = D.GMRF(np.zeros(n), prec=lambda s: s, name="x")
        else:
            x = D.Gaussian(np.zeros(n), cov=lambda s: 1 / s, name="x")
        return D.Posterior(x.to_likelihood(data), pri)

    def params(calls):
        return [(c["shape"].tolist(), (1.0 / c["scale"]).tolist()) for c in calls]

    hist = ctx.extra_cov.setdefault("reassign", {})
    for (it, iface, target), out in zip(meta, outs):
        if iface not in ("exp", "approx") or out == "ok" or not it["is_post"]:
            continue        # legacy samplers have no target setter (plain attribute); model-accepted targets: other streams
        cls = it["outside"] or ("likelihood-family" if it["fam"] in ("lmrf", "other") and iface == "exp" else f"model:{out}")
        if iface == "approx":
            kind = "lmrf"
        else:
            kind = {"reg": "reg", "gmrf": "gmrf"}.get(it["fam"], "gauss")
        cons = E.Conjugate if iface == "exp" else E.ConjugateApprox
        desc = {"sampler": iface, "sequence": [f"valid:{kind}", it["label"], f"valid:{kind}"], "class": cls}
        ctx.case(f"reassign-{iface}", desc)
        key = f"reassign:{iface}:{it['label']}"
        hist[f"{iface}:{cls.split(':')[0]}"] = hist.get(f"{iface}:{cls.split(':')[0]}", 0) + 1
        try:
            v1, v2 = valid(kind, 0), valid(kind, 1)
            with Capture(cuqi) as cap, quiet():
                smp = cons(v1)
                smp.step()
                fresh = cons(v2)
                fresh.step()
            ref = params(cap.calls[1:2])
        except Exception as e:
            ctx.disagree(key, desc, "valid targets accepted", repr(e)[:100], "a valid target was refused")
            continue
        # -- the unsupported assignment
        accepted = True
        try:
            with quiet():
                smp.target = target
        except Exception as e:
            accepted = False
            if classify(e) != out:
                ctx.disagree(key, desc, out, classify(e), "re-assignment is refused for another reason than construction")
        if accepted:
            got = {"accepted_on_reassignment": True, "class": cls, "prior_dim": int(getattr(target.prior, "dim", -1))}
            try:
                with Capture(cuqi) as cap, quiet():
                    smp.step()
                got["gamma_draws_in_one_step"] = len(cap.calls)
                if cap.calls:
                    got["drawn"] = params(cap.calls[:1])
                    if iface == "exp" and got["prior_dim"] == 1:
                        got["kernel_gap"] = gap_of(target, it["par"], cap.calls[0])
            except Exception as e:
                got["step"] = f"raised {type(e).__name__}: {str(e)[:80]}"
            ctx.disagree(key, desc, out, "ok", "unsupported target accepted on re-assignment")
            ctx.fail(key, desc, f"re-assignment rejected like construction ({out}): the posterior is outside the supported structure ({cls})",
                     got, "an unsupported posterior is accepted when assigned to a sampler that held a valid target")
        # -- back to a valid target: the conditional of the *current* target
        try:
            with Capture(cuqi) as cap, quiet():
                smp.target = v2
                smp.step()
            got2 = params(cap.calls)
        except Exception as e:
            ctx.disagree(key + ":after", desc, "valid target accepted", repr(e)[:100], "valid target refused after a rejected one")
            continue
        ok2 = len(got2) == 1 and len(ref) == 1 and np.allclose(got2[0][0], ref[0][0], rtol=1e-13, atol=0) and np.allclose(got2[0][1], ref[0][1], rtol=1e-13, atol=0)
        gap = gap_of(v2, "s", cap.calls[0]) if (cap.calls and iface == "exp" and kind in ("gauss", "gmrf")) else None
        if not ok2 or (gap is not None and gap.get("constant") is False):
            ctx.disagree(key + ":after", desc, ref, got2, "after the sequence the Gamma is not that of the current valid target")
            ctx.fail(key + ":after", desc, {"fresh sampler": ref, "proportional": True}, {"drawn": got2, "kernel_gap": gap},
                     "after valid -> unsupported -> valid the step does not draw from the current target's conditional")


def stream_gibbs(ctx, cuqi):
    """HybridGibbs' `_set_target` path: the Conjugate instance first serves a valid joint, then the Gibbs target is
    replaced by a joint whose hyper-parameter conditional is unsupported; the next sweep must raise."""
    D = cuqi.distribution
    E = cuqi.experimental.mcmc
    n = 3
    b = np.array([1.0, 0.0, 2.5])

    def joint(kw, mean=None):
        x = D.Gaussian(np.zeros(n), 1.0, name="x")
        y = D.Gaussian(mean or (lambda x: x), name="y", geometry=n, **kw)
        s = D.Gamma(2.0, 3.0, name="s")
        return D.JointDistribution(y, x, s)(y=b)

    bad = [("cov:recip-sq", {"cov": lambda s: 1 / s ** 2}, None), ("prec:two", {"prec": lambda s: 2 * s}, None),
           ("prec:square", {"prec": lambda s: s ** 2}, None), ("cov:ident", {"cov": lambda s: s}, None),
           ("sqrtprec:sqrt", {"sqrtprec": lambda s: np.sqrt(s)}, None),
           ("several-occurrences", {"cov": lambda s: 1 / s}, lambda x, s: x * s)]
    for label, kw, mean in bad:
        for first in ("cov", "prec"):
            desc = {"gibbs": f"valid({first}) -> {label}"}
            ctx.case("reassign-gibbs", desc)
            key = f"reassign:gibbs:{label}"
            st = np.random.get_state()
            try:
                np.random.seed(ctx.seed + 77)
                with quiet():
                    c = E.Conjugate()
                    g = E.HybridGibbs(joint({"cov": lambda s: 1 / s} if first == "cov" else {"prec": lambda s: s}), {"x": E.MH(), "s": c})
                    g.sample(2)
                # (i) a fresh HybridGibbs re-using the sampler instance
                try:
                    with quiet():
                        E.HybridGibbs(joint(kw, mean), {"x": E.MH(), "s": c})
                    acc1 = True
                except Exception:
                    acc1 = False
                # (ii) the running HybridGibbs gets the unsupported joint: next sweep goes through _set_target
                with quiet():
                    c2 = E.Conjugate()
                    g2 = E.HybridGibbs(joint({"cov": lambda s: 1 / s} if first == "cov" else {"prec": lambda s: s}), {"x": E.MH(), "s": c2})
                    g2.sample(1)
                    g2.target = joint(kw, mean)()
                got = {}
                try:
                    with Capture(cuqi) as cap, quiet():
                        g2.step()
                    acc2 = True
                    got["gamma_draws_in_sweep"] = len(cap.calls)
                    if cap.calls:
                        got["kernel_gap"] = gap_of(c2.target, "s", cap.calls[0])
                except Exception:
                    acc2 = False
            except Exception as e:
                ctx.note(f"gibbs re-assignment case {label} could not be set up: {repr(e)[:100]}")
                continue
            finally:
                np.random.set_state(st)
            if acc1 or acc2:
                got.update({"accepted_by_new_HybridGibbs_with_used_sampler": acc1, "accepted_by_sweep_after_target_change": acc2})
                ctx.disagree(key, desc, "raise", "accepted", "unsupported conditional accepted through HybridGibbs._set_target")
                ctx.fail(key, desc, "the Conjugate sampler rejects the unsupported conditional when HybridGibbs assigns it", got,
                         "an unsupported posterior is accepted (and sampled) when assigned through HybridGibbs")


def structural_oracle(ctx, cuqi, it, iface, out, smp, target, tie_key, desc):
    """ORACLE (implementation only): the property demands that a posterior outside the supported conjugate structure --
    non-scalar Gamma (by shape, rate or geometry), several occurrences of the hyper-parameter, a key other than cov/prec,
    another functional dependence -- is *rejected*.  Its acceptance is itself the failing input; where a step is possible
    the Gamma actually drawn from is exhibited against the variable it is supposed to sample."""
    cls = it["outside"]
    fam = it["fam"]
    if iface in ("exp", "leg"):
        if fam in ("lmrf", "other") and it["is_post"] and it["prior_gamma"]:
            cls = "likelihood-family-not-Gaussian/GMRF"     # exact sampler must not sample these (approximately)
        elif fam not in ("gauss", "gmrf", "reg"):
            return
        if cls is None:
            return
        if iface == "leg" and cls != "non-scalar-gamma":
            return      # legacy: no structural validation at all -- judged by the proportionality oracle (listed finding)
    else:
        if fam != "lmrf" or cls != "non-scalar-gamma":
            return      # ConjugateApprox is approximate by design; only the scalar-Gamma requirement is structural
    if out == "ok" and iface != "approxleg":
        return          # the faithful model accepts too (probe-only validation): judged by the proportionality oracle
    got = {"accepted": True, "class": cls, "prior_dim": int(getattr(target.prior, "dim", -1))}
    try:
        with Capture(cuqi) as cap, quiet():
            r = smp.step()
            pt = smp.current_point if hasattr(smp, "current_point") else r
        got["gamma_draws_in_one_step"] = len(cap.calls)
        if cap.calls:
            c0 = cap.calls[0]
            got["drawn_gamma_shape"] = c0["shape"].tolist()
            got["drawn_gamma_rate"] = (1.0 / c0["scale"]).tolist()
        got["returned_point_size"] = int(np.size(np.asarray(pt)))
        if len(cap.calls) == 1 and len(cap.calls[0]["shape"]) == 1 and iface in ("exp", "leg") and fam in ("gauss", "gmrf", "lmrf", "other") and got["prior_dim"] == 1:
            try:
                fit = fit_gap(target, it["par"], float(c0["shape"][0]), 1.0 / float(c0["scale"][0]))
                if fit["finite"]:
                    got["kernel_gap"] = {"A(log s)": fit["A"], "B(-s)": fit["B"], "resid": fit["resid"], "g-g0": fit["g"],
                                         "constant": not (abs(fit["A"]) > a_tol(fit) or abs(fit["B"]) > b_tol(fit, 1.0 / float(c0["scale"][0])) or fit["resid"] > RES_TOL * fit["mag"])}
            except Exception as e:
                got["target_logd"] = repr(e)[:80]
    except Exception as e:
        got["step"] = f"raised {type(e).__name__}: {str(e)[:80]}"
    key = f"approxleg:no-validation:{it['label']}" if iface == "approxleg" else tie_key
    ctx.fail(key, desc, f"rejected: the posterior is outside the supported conjugate structure ({cls})", got,
             "a posterior outside the supported conjugate structure is accepted instead of rejected")


# ----------------------------------------------------------------------------- stream C: ConjugateApprox parameters
def stream_approx(ctx, cuqi, thorough):
    D = cuqi.distribution
    from cuqi.geometry import Image2D
    rng = ctx.rng
    cases = []
    for i in range(600 if thorough else 24):
        pd = 1 if rng.random() < 0.7 else 2
        n = rng.randint(2, 20) if pd == 1 else rng.randint(2, 5)
        bc = rng.choice(BCS)
        dim = n if pd == 1 else n * n
        x = [dyadic(rng, -4, 4, 4) for _ in range(dim)]
        cases.append({"pd": pd, "n": n, "bc": bc, "x": x, "alpha": dyadic(rng, 1, 16, 4), "beta": dyadic(rng, 1, 16, 4)})
    both = ctx.lean.drive([f"approx {c['bc']} {c['pd']} {c['n']} {qv(c['x'])} {q(c['alpha'])}" for c in cases]
                          + [f"approxr {c['bc']} {c['pd']} {c['n']} {qv(c['x'])} {q(c['alpha'])} {q(c['beta'])}" for c in cases])
    outs, encl = both[:len(cases)], both[len(cases):]
    for c, out, enc in zip(cases, outs, encl):
        desc = {k: c[k] for k in ("pd", "n", "bc", "alpha", "beta")}
        desc["x"] = c["x"][:6]
        geom = {"geometry": Image2D((c["n"], c["n"]))} if c["pd"] == 2 else {"geometry": c["n"]}
        for iface in ("exp", "leg"):
            ctx.case(f"approx-{iface}", desc)
            key = f"tie:approx:{iface}:{c['bc']}:{c['pd']}D"
            try:
                with quiet():
                    xd = D.LMRF(0, lambda s: 1 / s, bc_type=c["bc"], name="x", **geom)
                    post = D.Posterior(xd.to_likelihood(np.array(c["x"])), D.Gamma(c["alpha"], c["beta"], name="s"))
                with Capture(cuqi) as cap, quiet():
                    smp = (cuqi.experimental.mcmc.ConjugateApprox if iface == "exp" else cuqi.sampler.ConjugateApprox)(post)
                    smp.step()
                calls = cap.calls
            except Exception as e:
                if out != "err":
                    ctx.disagree(key, desc, out[:40], repr(e)[:80], "ConjugateApprox refuses a target the model accepts")
                continue
            if out == "err" or not calls:
                ctx.disagree(key, desc, out[:40], "sampled", "refusal differs")
                continue
            m_shape = pq(out.split()[0])
            dx = np.array([float(v) for v in pv(out.split()[1])])
            rate_ref = float(np.sum(dx ** 2 / np.sqrt(dx ** 2 + 1e-5))) + c["beta"]
            shape, rate = float(calls[0]["shape"][0]), 1.0 / float(calls[0]["scale"][0])
            if not close(shape, m_shape, SHAPE_TOL) or not close(rate, rate_ref, 1e-9):
                ctx.disagree(key, desc, [str(m_shape), rate_ref], [shape, rate], "ConjugateApprox Gamma parameters differ from d+alpha, sum w_k (Dx)_k^2 + beta")
            # the model's rational enclosure of the irrational rate (theorem approxRate_enclosure): the captured float must lie
            # inside it up to the rounding of the code's own floating-point evaluation (relative 1e-12)
            et = enc.split()
            if len(et) != 3:
                ctx.disagree(key + ":enclosure", desc, enc[:40], "sampled", "refusal differs")
                continue
            lo, hi = pq(et[1]), pq(et[2])
            slack = Fraction(1, 10 ** 12)
            fr = Fraction(rate)
            ctx.extra_cov.setdefault("approx_rate_enclosure", {"inside": 0, "outside": 0, "max_rel_width": 0.0})
            ec = ctx.extra_cov["approx_rate_enclosure"]
            ec["max_rel_width"] = max(ec["max_rel_width"], float((hi - lo) / hi))
            if lo * (1 - slack) <= fr <= hi * (1 + slack) and pq(et[0]) == m_shape:
                ec["inside"] += 1
            else:
                ec["outside"] += 1
                ctx.disagree(key + ":enclosure", desc, [float(lo), float(hi)], rate, "ConjugateApprox rate outside the model's enclosure of sum d_k^2/sqrt(d_k^2+1e-5) + beta")


# ----------------------------------------------------------------------------- stream D: Direct
def stream_direct(ctx, cuqi, thorough):
    D = cuqi.distribution
    E = cuqi.experimental.mcmc
    rng = ctx.rng
    targets = [
        ("Gaussian2", lambda: D.Gaussian(np.zeros(2), 1.0)),
        ("Gaussian5cov", lambda: D.Gaussian(np.arange(5.0), np.arange(1.0, 6.0))),
        ("Gamma1", lambda: D.Gamma(2.0, 3.0)),
        ("Gamma3", lambda: D.Gamma(np.array([1.0, 2.0, 3.0]), 2.0)),
        ("GMRF6", lambda: D.GMRF(np.zeros(6), 2.0)),
        ("Uniform2", lambda: D.Uniform(np.zeros(2), np.ones(2))),
        ("Laplace3", lambda: D.Laplace(np.zeros(3), 1.0)),
        ("Beta2", lambda: D.Beta(np.array([2.0, 3.0]), np.array([2.0, 2.0]))),
        ("Lognormal2", lambda: D.Lognormal(np.zeros(2), 1.0)),
    ]
    runs = []
    for name, mk in targets:
        for rep in range(10 if thorough else 2):
            runs.append((name, mk, rng.randint(0, 6), rng.randint(0, 3), rng.choice([1, 1, 2])))
    lines = [f"direct {nv} {nb + ns}" for _, _, ns, nb, nv in runs]
    # kinds of target for Direct.validate_target (model: directValidates / directCalls), same driver call
    vkinds = [("hasSample", lambda: D.Gaussian(np.zeros(2), 1.0)), ("userSampleFunc", None), ("userNoSampleFunc", lambda: D.UserDefinedDistribution(dim=2, logpdf_func=lambda x: -0.5 * float(np.sum(x ** 2)))),
              ("conditional", lambda: D.Gaussian(lambda z: z * np.ones(2), 1.0)), ("noSampleMethod", lambda: type("NoSample", (), {"dim": 1})())]
    vruns = [(kind, mk, rng.randint(1, 2), rng.randint(0, 4)) for kind, mk in vkinds for _ in range(2)]
    outs_all = ctx.lean.drive(lines + [f"directv {kind} {k} {n}" for kind, _, k, n in vruns])
    outs, vouts = outs_all[:len(lines)], outs_all[len(lines):]
    for (kind, mk, k, n), vout in zip(vruns, vouts):
        desc = {"direct-target-kind": kind, "assignments": k, "N": n}
        ctx.case("direct-validate", desc)
        key = f"tie:direct:validate:{kind}"
        calls = [0]
        def sample_func(calls=calls):
            calls[0] += 1
            return np.full((2, 1), float(calls[0] - 1))
        try:
            with quiet():
                t = D.UserDefinedDistribution(dim=2, sample_func=sample_func) if kind == "userSampleFunc" else mk()
                if kind == "hasSample":
                    orig = t._sample
                    def counting(N=1, rng=None, orig=orig, calls=calls):
                        calls[0] += 1
                        return orig(N, rng)
                    t._sample = counting
                smp = E.Direct(t)
                for _ in range(k - 1):
                    smp.target = t
                if n:
                    smp.sample(n)
            impl = f"ok {calls[0]}"
            chain = [np.asarray(v, dtype=float).ravel() for v in smp._samples] if n else []
        except TypeError:
            impl, chain = "TypeError", []
        except Exception as e:
            impl, chain = f"{type(e).__name__}", []
        if impl != vout:
            ctx.disagree(key, desc, vout, impl, "Direct.validate_target / number of calls of the target's sampling routine differs from the model")
            if vout == "TypeError" and impl.startswith("ok"):
                ctx.fail(key, desc, "TypeError: the target cannot be sampled", impl, "Direct accepts a target whose sample() does not return")
        if kind == "userSampleFunc" and impl.startswith("ok"):
            # ORACLE: the stored states are the return values of sample_func, in order, each once (after the validation calls)
            want = [float(j) for j in range(k, k + n)]
            got = [float(c[0]) if len(c) == 2 and c[0] == c[1] else None for c in chain]
            if got != want:
                ctx.fail(key, desc, want, got, "Direct's states are not the draws of the user supplied sample_func (in order, each once)")
    for (name, mk, ns, nb, nv), out in zip(runs, outs):
        desc = {"target": name, "Ns": ns, "Nb": nb, "assignments": nv}
        ctx.case("direct-scripted", desc)
        key = f"tie:direct:{name}"
        with quiet():
            t = mk()
        dim = t.dim
        counter = [0]
        def stub(N=1, rng=None, counter=counter, dim=dim):
            counter[0] += 1
            return np.full((dim, N), float(counter[0] - 1)) if dim > 1 or True else None
        t._sample = stub
        try:
            with quiet():
                smp = E.Direct(t)
                for _ in range(nv - 1):
                    smp.target = t
                if nb:
                    smp.warmup(nb)
                if ns:
                    smp.sample(ns)
                smp._ensure_initialized()
        except Exception as e:
            ctx.disagree(key, desc, out, repr(e)[:100], "Direct raised on a target with a sample method")
            ctx.fail(key, desc, "Direct runs on any target with a sample method", repr(e)[:100])
            continue
        chain = [np.asarray(s, dtype=float).ravel() for s in smp._samples]
        idx = [int(c[0]) for c in chain]
        const = all(np.all(c == c[0]) and len(c) == dim for c in chain)
        toks = out.split()
        m_idx = [int(v) for v in toks[0].split(",")] if toks[0] != "_" else []
        m_acc = [int(v) for v in toks[1].split(",")]
        if idx != m_idx or not const or list(smp._acc) != m_acc or counter[0] != int(toks[3]):
            ctx.disagree(key, desc, out, {"chain": idx, "acc": list(smp._acc), "draws_served": counter[0]}, "Direct chain differs from the model")
        # ORACLE: the stored states are the target's own draws, in order, each used once
        served_after_validation = list(range(nv, counter[0]))
        if idx != served_after_validation or not const:
            ctx.fail(key, desc, f"chain = target draws {served_after_validation}", idx, "Direct's states are not the target's own draws (in order, each once)")
    # un-scripted: same random stream => identical numbers
    for name, mk in targets:
        ctx.case("direct-seeded", {"target": name})
        key = f"tie:direct:{name}:seeded"
        with quiet():
            t = mk()
        st = np.random.get_state()
        try:
            with quiet():
                np.random.seed(ctx.seed + 10)
                smp = E.Direct(t)
                smp.sample(3)
                got = [np.asarray(s, dtype=float).ravel() for s in smp._samples]
                np.random.seed(ctx.seed + 10)
                ref = [np.asarray(t.sample(), dtype=float).ravel() for _ in range(4)][1:]
        finally:
            np.random.set_state(st)
        if len(got) != 3 or not all(np.array_equal(a, b) for a, b in zip(got, ref)):
            ctx.disagree(key, {"target": name}, "target.sample() under the same stream", "differs")
            ctx.fail(key, {"target": name}, [r.tolist() for r in ref], [g.tolist() for g in got], "Direct's draws are not target.sample() draws")
    # no sample method
    class NoSample:
        dim = 1
    ctx.case("direct-reject", {"target": "object without sample"})
    try:
        with quiet():
            E.Direct(NoSample())
        ctx.disagree("tie:direct:no-sample", {}, "TypeError", "accepted")
        ctx.fail("tie:direct:no-sample", {}, "TypeError", "accepted", "Direct accepts a target without a sample method")
    except TypeError:
        pass


# ----------------------------------------------------------------------------- Direct: histories on one sampler
def stream_direct_histories(ctx, cuqi, thorough):
    """ONE Direct sampler, several targets: random histories of sample/warmup, target re-assignment (other target, same
    target again) and reinitialize().  Each target's `_sample` is a counting stub (value = 1000*target + index), so every
    stored state says which target's draw it is.  ORACLE (implementation only): every stored state is the next unserved
    draw of the target assigned *at that moment*; tie: the Lean model `mRun`."""
    D = cuqi.distribution
    E = cuqi.experimental.mcmc
    rng = ctx.rng
    makers = [lambda: D.Gaussian(np.zeros(2), 1.0), lambda: D.Gamma(2.0, 3.0), lambda: D.Gaussian(np.zeros(2), 4.0),
              lambda: D.Uniform(np.zeros(3), np.ones(3)), lambda: D.GMRF(np.zeros(4), 2.0), lambda: D.Laplace(np.zeros(2), 1.0)]
    runs = []
    nruns = 200 if thorough else 30
    for r in range(nruns):
        k = rng.randint(2, 3)
        ops = []
        for _ in range(rng.randint(3, 9)):
            u = rng.random()
            if u < 0.5:
                ops.append(("s", rng.choice(["sample", "warmup"]), rng.randint(1, 3)))
            elif u < 0.85:
                ops.append(("a", rng.randrange(k)))
            else:
                ops.append(("r",))
        if r < 6:   # the minimal histories, always present
            ops = [[("s", "sample", 2), ("a", 1), ("s", "sample", 2)], [("s", "warmup", 1), ("a", 1), ("s", "sample", 1), ("a", 0), ("s", "sample", 2)],
                   [("s", "sample", 1), ("a", 0), ("s", "sample", 1)], [("a", 1), ("s", "sample", 2)],
                   [("s", "sample", 1), ("a", 1), ("r",), ("s", "sample", 2)], [("s", "sample", 1), ("r",), ("a", 1), ("s", "sample", 1), ("r",), ("s", "sample", 1)]][r]
        runs.append((k, rng.sample(range(len(makers)), k), rng.choice(["ctor", "ctor-kw", "late"]), ops))
    lines = []
    for k, which, how, ops in runs:
        toks = []
        for op in ops:
            toks += ["s"] * op[2] if op[0] == "s" else [f"a{op[1]}"] if op[0] == "a" else ["r"]
        lines.append("directm 0 " + " ".join(toks))
    outs = ctx.lean.drive(lines)
    for (k, which, how, ops), out in zip(runs, outs):
        desc = {"direct-history": [list(o) for o in ops], "targets": which, "construction": how}
        ctx.case("direct-history", desc)
        key = "tie:direct:history"
        with quiet():
            targets = [makers[w]() for w in which]
        counters = [[0] for _ in targets]
        for tid, t in enumerate(targets):
            def stub(N=1, rng=None, tid=tid, dim=t.dim):
                counters[tid][0] += 1
                return np.full((dim, N), 1000.0 * tid + (counters[tid][0] - 1))
            t._sample = stub
        expected, cur, retained = [], 0, []
        served = [0] * k
        try:
            with quiet():
                if how == "ctor":
                    smp = E.Direct(targets[0])
                elif how == "ctor-kw":
                    smp = E.Direct(target=targets[0])
                else:
                    smp = E.Direct()
                    smp.target = targets[0]
                served[0] += 1
                for op in ops:
                    if op[0] == "s":
                        (smp.sample if op[1] == "sample" else smp.warmup)(op[2])
                        for _ in range(op[2]):
                            expected.append((cur, served[cur])); served[cur] += 1
                        retained.append((len(expected), smp._samples[-1]))
                    elif op[0] == "a":
                        smp.target = targets[op[1]]
                        cur = op[1]; served[cur] += 1
                    else:
                        smp.reinitialize()
                        expected = []; retained = []
                smp._ensure_initialized()      # histories without any sampling phase: initialise (draws nothing)
        except Exception as e:
            ctx.disagree(key, desc, out, repr(e)[:120], "history raised")
            ctx.fail(key, desc, "every operation of the history is legal", repr(e)[:120], "Direct raised on a legal history")
            continue
        got = []
        for v in smp._samples:
            a = np.asarray(v, dtype=float).ravel()
            got.append((int(a[0] // 1000), int(a[0] % 1000)) if len(a) and np.all(a == a[0]) else ("?", a.tolist()))
        m_s = [] if out.split()[0] == "_" else [tuple(int(x) for x in t.split(":")) for t in out.split()[0].split(",")]
        m_acc = [int(v) for v in out.split()[1].split(",")]
        if got != m_s or list(smp._acc) != m_acc:
            ctx.disagree(key, desc, {"chain": m_s, "acc": m_acc}, {"chain": got, "acc": list(smp._acc)}, "chain of (target, draw index) differs from the model")
        stale = [(i, obj) for i, obj in retained if i <= len(got) and tuple(got[i - 1]) != tuple(expected[i - 1])]
        if got != expected or [c[0] for c in counters] != served:
            ctx.fail(key, desc, {"chain (target, draw)": expected, "draws served per target": served},
                     {"chain (target, draw)": got, "draws served per target": [c[0] for c in counters]},
                     "a stored state is not the next draw of the target assigned at that moment (stale or re-used sampling routine)")
    # un-scripted: same stream => the draws after a re-assignment are the NEW target's own draws
    for i in range(len(makers) - 1):
        ctx.case("direct-history-seeded", {"targets": [i, i + 1]})
        key = "tie:direct:history:seeded"
        with quiet():
            t1, t2 = makers[i](), makers[i + 1]()
        st = np.random.get_state()
        try:
            with quiet():
                np.random.seed(ctx.seed + 31 + i)
                smp = E.Direct(t1); smp.sample(2); smp.target = t2; smp.sample(2)
                got = [np.asarray(v, dtype=float).ravel() for v in smp._samples]
                np.random.seed(ctx.seed + 31 + i)
                ref = [np.asarray(t1.sample(), dtype=float).ravel() for _ in range(3)][1:] + [np.asarray(t2.sample(), dtype=float).ravel() for _ in range(3)][1:]
        finally:
            np.random.set_state(st)
        if len(got) != 4 or not all(a.shape == b.shape and np.array_equal(a, b) for a, b in zip(got, ref)):
            ctx.disagree(key, {"targets": [i, i + 1]}, "t1 draws then t2 draws", "differs")
            ctx.fail(key, {"targets": [i, i + 1]}, [r.tolist() for r in ref], [g.tolist() for g in got],
                     "after re-assigning the target, Direct's draws are not the new target's sample() draws")


# ----------------------------------------------------------------------------- Conjugate: the target changes under the sampler
def stream_conjugate_histories(ctx, cuqi, built, outs):
    """ONE sampler, ONE target object whose contents change after the first step: data updated in place, prior
    shape / rate and likelihood mean re-assigned through their setters, the callable replaced.  The next step must draw
    from the conditional of the target *as it is now* (oracle: proportionality to the current target.logd; tie: model
    evaluated on the updated numbers)."""
    import copy
    rng = ctx.rng
    cand = [(s, p, o) for (s, p, _), o in zip(built, outs) if o not in ("err", "bad-op") and not s["reg"] and s["datak"] == "vec"
            and s.get("dkind", "f64") in ("f64", "strided", "negstride", "cuqiarray")]
    rng.shuffle(cand)
    cand = cand[: (60 * ctx.scale)]
    jobs = []
    for spec, post, _ in cand:
        for iface in ("exp", "leg"):
            mut = rng.choice(["data-inplace", "prior-rate", "prior-shape", "mean-setter", "callable-scaled", "data-inplace"])
            spec2 = copy.deepcopy(spec)
            desc = {k: spec[k] for k in spec if k not in ("mean", "b")}
            desc.update({"history": ["step", mut, "step"], "interface": iface})
            key = f"tie:{iface}:{family_key(spec)}:history"
            try:
                dist = post.likelihood.distribution
                with Capture(cuqi) as cap, quiet():
                    smp = cuqi.experimental.mcmc.Conjugate(post) if iface == "exp" else cuqi.sampler.Conjugate(post)
                    smp.step()
                    # ---- the change
                    if mut == "data-inplace":
                        d = post.likelihood.data
                        if not (isinstance(d, np.ndarray) and d.flags.writeable):
                            continue
                        d += 1.0
                        spec2["b"] = [float(v) for v in np.asarray(post.likelihood.data, dtype=float).ravel()]
                    elif mut == "prior-rate":
                        spec2["beta"] = spec["beta"] * 2 + 0.5
                        post.prior.rate = spec2["beta"]
                    elif mut == "prior-shape":
                        spec2["alpha"] = spec["alpha"] + 1.5
                        post.prior.shape = spec2["alpha"]
                    elif mut == "mean-setter":
                        if callable(dist.mean) or len(spec["mean"]) != len(np.asarray(dist.mean).ravel()):
                            continue
                        spec2["mean"] = [v + 1.0 for v in spec["mean"]]
                        dist.mean = np.array(spec2["mean"])
                    else:
                        nm, w = spec["name"], spec.get("wiring", "prec")
                        c = 1 + 3 * 2.0 ** -20 if w == "prec" else 1 - 2.0 ** -31
                        f2 = mk_lambda(nm, f"1/({c!r}*{nm})" if w == "cov" else f"{c!r}*{nm}")
                        setattr(dist, w, f2)
                        spec2["_f1"] = scalar(f2(np.array([1])))
                    ncalls = len(cap.calls)
                    r = smp.step()
                calls2 = cap.calls[ncalls:]
            except Exception as e:
                ctx.note(f"conjugate history {mut} on {family_key(spec)} raised: {repr(e)[:100]}")
                continue
            finally:
                pass
            jobs.append((spec, spec2, post, iface, mut, desc, key, calls2))
            # undo, so that the next interface starts from the same target
            try:
                with quiet():
                    if mut == "data-inplace":
                        post.likelihood.data[...] = post.likelihood.data - 1.0
                    elif mut == "prior-rate":
                        post.prior.rate = spec["beta"]
                    elif mut == "prior-shape":
                        post.prior.shape = spec["alpha"]
                    elif mut == "mean-setter":
                        post.likelihood.distribution.mean = np.array(spec["mean"])
                    else:
                        setattr(post.likelihood.distribution, spec.get("wiring", "prec"), conforming_callable(spec, iface))
            except Exception:
                pass
    f1s = {}
    lines = []
    for spec, spec2, post, iface, mut, desc, key, calls2 in jobs:
        f1 = spec2.pop("_f1", None)
        if f1 is None:
            with quiet():
                f1 = scalar(conforming_callable(spec, iface)(np.array([1])))
        lines.append(model_line(spec2, f1))
    mouts = ctx.lean.drive(lines)
    # the oracle needs the target in its changed state again: re-apply, check, undo
    for (spec, spec2, post, iface, mut, desc, key, calls2), mout in zip(jobs, mouts):
        ctx.case(f"conjugate-history-{iface}", desc)
        if mout in ("err", "bad-op") or len(calls2) != 1 or len(calls2[0]["shape"]) != 1:
            ctx.disagree(key, desc, mout[:40], f"{len(calls2)} gamma draws", "step after the change")
            continue
        toks = mout.split()
        model = {"shape": pq(toks[0]), "rate": pq(toks[1]), "tlog": pq(toks[2]), "tlin": pq(toks[3])}
        shape, rate = float(calls2[0]["shape"][0]), 1.0 / float(calls2[0]["scale"][0])
        same = close(shape, model["shape"], SHAPE_TOL) and close(rate, model["rate"], SHAPE_TOL)
        if not same:
            ctx.disagree(key + ":params", desc, [str(model["shape"]), str(model["rate"])], [shape, rate],
                         "after the target changed, the Gamma drawn from is not the model's for the current numbers")
        dist = post.likelihood.distribution
        try:
            with quiet():
                if mut == "data-inplace":
                    post.likelihood.data[...] = post.likelihood.data + 1.0
                elif mut == "prior-rate":
                    post.prior.rate = spec2["beta"]
                elif mut == "prior-shape":
                    post.prior.shape = spec2["alpha"]
                elif mut == "mean-setter":
                    dist.mean = np.array(spec2["mean"])
                else:
                    nm, w = spec["name"], spec.get("wiring", "prec")
                    c = 1 + 3 * 2.0 ** -20 if w == "prec" else 1 - 2.0 ** -31
                    setattr(dist, w, mk_lambda(nm, f"1/({c!r}*{nm})" if w == "cov" else f"{c!r}*{nm}"))
            check_exactness(ctx, key + ":params", f"{iface}:{family_key(spec)}", desc, spec2, post, calls2, model, force=not same)
        finally:
            with quiet():
                try:
                    if mut == "data-inplace":
                        post.likelihood.data[...] = post.likelihood.data - 1.0
                    elif mut == "prior-rate":
                        post.prior.rate = spec["beta"]
                    elif mut == "prior-shape":
                        post.prior.shape = spec["alpha"]
                    elif mut == "mean-setter":
                        dist.mean = np.array(spec["mean"])
                    else:
                        setattr(dist, spec.get("wiring", "prec"), conforming_callable(spec, iface))
                except Exception:
                    pass


# ----------------------------------------------------------------------------- chains of the Conjugate sampler
def stream_conjugate_chain(ctx, cuqi, thorough):
    """stored chain = the sequence of Gamma draws, through repeated phases (warmup -> sample -> warmup …, lengths 0, 1, k)"""
    D = cuqi.distribution
    E = cuqi.experimental.mcmc
    rng = ctx.rng
    for rep_ in range(12 if thorough else 4):
        for wiring, f in (("cov", lambda s: 1 / s), ("prec", lambda s: s)):
            phases = [("warmup", 2), ("sample", 3)] if rep_ == 0 else [(rng.choice(["warmup", "sample"]), rng.choice([0, 1, 1, 2, 3])) for _ in range(rng.randint(1, 5))]
            desc = {"chain": "Conjugate", "wiring": wiring, "phases": phases}
            ctx.case("conjugate-chain", desc)
            key = f"tie:exp:chain:{wiring}"
            y = D.Gaussian(np.zeros(3), name="y", **{wiring: f})
            post = D.Posterior(y.to_likelihood(np.array([1.0, 2.0, 0.5])), D.Gamma(1.5, 0.25, name="s"))
            with Capture(cuqi) as cap, quiet():
                smp = E.Conjugate(post)
                for ph, k in phases:
                    (smp.warmup if ph == "warmup" else smp.sample)(k)
                smp._ensure_initialized()
            pts = [scalar(s) for s in smp._samples]
            vals = [c["value"] for c in cap.calls]
            ntot = sum(k for _, k in phases)
            same_gamma = all(np.array_equal(c["shape"], cap.calls[0]["shape"]) and np.array_equal(c["scale"], cap.calls[0]["scale"]) for c in cap.calls)
            if pts != vals or len(pts) != ntot or list(smp._acc) != [1] * (ntot + 1) or not same_gamma:
                ctx.disagree(key, desc, vals, pts, "stored chain is not the sequence of Gamma draws")
                ctx.fail(key, desc, {"chain": vals, "length": ntot}, {"chain": pts, "acc": list(smp._acc), "same Gamma every step": same_gamma},
                         "Conjugate's stored chain is not the sequence of its Gamma draws of one fixed conditional")


def run(ctx):
    cuqi = import_cuqi()
    thorough = ctx.tier == "thorough"
    ctx.trusted += ["numpy.random.gamma draws Gamma(shape, scale) (law of the generator)", "scipy.stats.gamma.logpdf (oracle)",
                    "scipy sparse LU / Cholesky used by GMRF.sqrtprec (enters through R^T R = P + sqrt(eps) I)"]
    ctx.assumptions += [f"Gamma parameters compared with the exact model value to relative {SHAPE_TOL}",
                        "oracle fits g(s)=logd(s)-log gammapdf(s) as A log s - B s + C on a 6-point dyadic grid; |A|>1e-6, |B| above float resolution, or residual > 1e-7*magnitude is a failure",
                        "ConjugateApprox rate compared at 1e-9 (irrational weights evaluated in floating point from the model's exact D x)"]
    stream_supported(ctx, cuqi, thorough)
    stream_validation(ctx, cuqi, thorough)
    stream_approx(ctx, cuqi, thorough)
    stream_direct(ctx, cuqi, thorough)
    stream_direct_histories(ctx, cuqi, thorough)
    stream_conjugate_chain(ctx, cuqi, thorough)
    # session-3 streams; one driver call for both (every call queues for the shared build lock)
    from harness.props.c10_weighted import prepare_weighted, finish_weighted
    from harness.props.c10_gammadim import prepare_gamma_dim, finish_gamma_dim
    from harness.props.c10_gmrfglue import prepare_gmrf_glue, finish_gmrf_glue
    lw, sw = prepare_weighted(ctx, cuqi, thorough)
    lg, sg = prepare_gamma_dim(ctx, cuqi, thorough)
    lm, sm = prepare_gmrf_glue(ctx, cuqi, thorough)
    from harness.props.c10_weighted import prepare_sparse, finish_sparse
    ls, ss = prepare_sparse(ctx, cuqi, thorough)
    outs = ctx.lean.drive(lw + lg + lm + ls)
    finish_sparse(ctx, cuqi, ss, ls, outs[len(lw) + len(lg) + len(lm):])
    outs = outs[:len(lw) + len(lg) + len(lm)]
    finish_weighted(ctx, cuqi, sw, lw, outs[:len(lw)])
    finish_gamma_dim(ctx, cuqi, sg, lg, outs[len(lw):len(lw) + len(lg)])
    finish_gmrf_glue(ctx, cuqi, sm, lm, outs[len(lw) + len(lg):])
