"""C05, stream "call-forms": the glue of `Distribution.sample(N=1, *args, **kwargs)` — how the number of draws reaches
`_sample` and the wrapping rule `N == 1` (default N, N by keyword, numpy integer types), for every samplable family.

Tie: type / shape of the result vs the model's `sampleShape` (driver op `shape`).
Oracle: the result must be identical (values, type, shape) to `sample(N, rng=gen)` with a plain python int from the
same generator state; wrapping per the property; global random state untouched.
"""
import numpy as np
from harness.core import quiet


def prepare(ctx, cuqi, thorough, H):
    rs = np.random.RandomState(ctx.seed + 5353)
    zoo = [z for z in H.family_zoo(cuqi, rs) if z[2] <= (5 if thorough else 3)]
    forms = [("default-N", lambda D, g: D.sample(rng=g), 1),
             ("kw-N1", lambda D, g: D.sample(N=1, rng=g), 1),
             ("npint64-N1", lambda D, g: D.sample(np.int64(1), rng=g), 1),
             ("kw-N3", lambda D, g: D.sample(N=3, rng=g), 3),
             ("npint64-N3", lambda D, g: D.sample(np.int64(3), rng=g), 3),
             ("npint32-N2", lambda D, g: D.sample(np.int32(2), rng=g), 2),
             ("kw-npint-N1", lambda D, g: D.sample(N=np.int64(1), rng=g), 1)]
    lines, metas = [], []
    hist = {}
    for fam, mk, dim in zoo:
        try:
            with quiet():
                D = mk()
        except Exception:
            continue
        for (fname, call, N) in forms:
            seed = int(rs.randint(0, 2 ** 31 - 1))
            ref, eref, _ = H.call_sample(D, N, np.random.RandomState(seed))
            before = H.global_state_fingerprint()
            try:
                with quiet():
                    s = call(D, np.random.RandomState(seed))
                err = None
            except Exception as e:  # noqa
                s, err = None, type(e).__name__ + ": " + str(e)[:80]
            untouched = before == H.global_state_fingerprint()
            lines.append(f"shape {fam} 0 {dim} {N}")
            metas.append(dict(fam=fam, D=D, dim=dim, N=N, form=fname, s=s, err=err, ref=ref, eref=eref, untouched=untouched))
            hist[fname] = hist.get(fname, 0) + 1
    return lines, (metas, hist)


def finish(ctx, cuqi, H, state, outs):
    metas, hist = state
    for m, out in zip(metas, outs):
        fam, D, dim, N, fname = m["fam"], m["D"], m["dim"], m["N"], m["form"]
        desc = {"family": fam, "dim": dim, "N": N, "call": fname, "object": repr(D)[:80]}
        key = f"callform:{fam}:{fname}"
        wkey = f"wrap:{fam}:{'N1' if N == 1 else 'N>1'}"
        ctx.case("call-form", desc)
        if m["eref"] is not None:
            continue                      # the plain call already refuses: reported by the wrap stream
        if m["err"] is not None:
            ctx.disagree(key, desc, out, m["err"], "sampling raises for this way of passing N")
            ctx.fail(key, desc, "the same draws as sample(N, rng=gen) with a python int", m["err"], "sampling raises for this way of passing N")
            continue
        tok = H.shape_token(cuqi, m["s"])
        if tok != out:
            ctx.disagree(wkey if tok == H.shape_token(cuqi, m["ref"]) else key, desc, out, tok, "type/shape of what sample() returns")
        for d, g in H.wrap_oracle(cuqi, D, N, m["s"]):
            ctx.fail(wkey if tok == H.shape_token(cuqi, m["ref"]) else key, desc, d, g,
                     "one draw must be an array with the distribution's geometry, several draws one column per draw")
        a, b = H.values(m["s"]), H.values(m["ref"])
        if tok != H.shape_token(cuqi, m["ref"]) or a.shape != b.shape or not np.array_equal(a, b, equal_nan=True):
            ctx.fail(key, desc, {"type/shape": H.shape_token(cuqi, m["ref"]), "values": b.tolist()[:3]}, {"type/shape": tok, "values": a.tolist()[:3]},
                     "the result depends on how the number of draws is passed (default / keyword / numpy integer)")
        if not m["untouched"]:
            ctx.fail(f"rng:{fam}:global-state", desc, "global numpy random state untouched when rng is given", "changed")
    ctx.extra_cov["call_forms"] = hist


def run_call_forms(ctx, cuqi, thorough, H):
    lines, state = prepare(ctx, cuqi, thorough, H)
    finish(ctx, cuqi, H, state, ctx.lean.drive(lines))
