"""C08 — NUTS block inside a real HybridGibbs (implementation-only oracle; seeded change C08-r8m2).

In every Gibbs sweep HybridGibbs replaces the NUTS block's target by the current conditional, sets
`initial_point = current_point` (the same array object) and calls `reinitialize()`.  Property clause: the cached log-density and
gradient always belong to the current point — at the entry of every NUTS transition they must be those of the CURRENT conditional
at the current point (otherwise the first half-step, the Hamiltonian and the slice of the transition belong to another target).
Generated class: dimension 1..3, Gamma hyper-prior parameters, fixed NUTS step size and depth bound, MH scale, seeds; 10-14 sweeps.
"""
import numpy as np
from harness.core import quiet, close, vclose


def gibbs_stream(ctx, cuqi, rng, n):
    from cuqi.experimental.mcmc import NUTS, MH, HybridGibbs
    hist = {"configs": 0, "nuts_transitions_checked": 0, "target_objects_seen": 0}
    saved = np.random.get_state()
    try:
        for i in range(n):
            dim = rng.choice([1, 2, 2, 3]); a = rng.choice([2, 3, 5]); b = rng.choice([1, 2, 0.5])
            eps = rng.choice([0.1, 0.2, 0.4, 0.7]); md = rng.choice([2, 3, 4]); sweeps = rng.choice([10, 12, 14])
            seed = rng.randint(0, 10 ** 6)
            desc = {"dim": dim, "Gamma": [a, b], "step_size": eps, "max_depth": md, "sweeps": sweeps, "numpy_seed": seed,
                    "setup": "d ~ Gamma(a,b); x ~ Gaussian(0, 1/d); HybridGibbs(joint, {x: NUTS(step_size, max_depth), d: MH(scale=.5)})"}
            key = "NUTS:exp:gibbs:cache"
            np.random.seed(seed)
            record = {"bad": None, "n": 0, "targets": set()}
            try:
                with quiet(), np.errstate(all="ignore"):
                    d = cuqi.distribution.Gamma(a, b, name="d")
                    x = cuqi.distribution.Gaussian(np.zeros(dim), lambda d: 1 / d, name="x")
                    joint = cuqi.distribution.JointDistribution(d, x)
                    nuts = NUTS(step_size=eps, max_depth=md)
                    mh = MH(scale=0.5, initial_point=np.array([1.0]))
                    g = HybridGibbs(joint, {"x": nuts, "d": mh})
                    blk = g.samplers["x"]
                    orig = blk.step

                    def checked():
                        p = np.asarray(blk.current_point, float).ravel()
                        l_true = float(np.asarray(blk.target.logd(p))); g_true = np.asarray(blk.target.gradient(p), float).ravel()
                        l_c = float(np.asarray(blk.current_target_logd)); g_c = np.asarray(blk.current_target_grad, float).ravel()
                        record["n"] += 1; record["targets"].add(id(blk.target))
                        if record["bad"] is None and not (close(l_c, l_true, 1e-9) and vclose(g_c, g_true, 1e-9)):
                            record["bad"] = {"transition": record["n"], "point": p.tolist(), "cached": {"logd": l_c, "grad": g_c.tolist()},
                                             "current target": {"logd": l_true, "grad": g_true.tolist()}}
                        return orig()
                    blk.step = checked
                    g.sample(sweeps)
            except Exception as ex:
                ctx.note(f"gibbs_stream: configuration {desc} raised {repr(ex)[:160]}"); continue
            ctx.case("gibbs-nuts-block", desc)
            hist["configs"] += 1; hist["nuts_transitions_checked"] += record["n"]; hist["target_objects_seen"] += len(record["targets"])
            if record["bad"] is not None:
                ctx.fail(key, {**desc, "first_bad_transition": record["bad"]["transition"], "point": record["bad"]["point"]},
                         record["bad"]["current target"], record["bad"]["cached"],
                         "inside HybridGibbs a NUTS transition starts with cached log-density/gradient that do not belong to the current point under the current conditional")
    finally:
        np.random.set_state(saved)
    ctx.extra_cov["c08_gibbs"] = hist
