"""C19 — session-3 extension: tie streams for lean/CuqiVerif/Model/C19_access.lean (the code of
cuqi/samples/_samples.py around the burnthin/conversion/statistics core): constructor and flag-setter validation,
`_sub_samples`, `__iter__`/`shape`, `_select_random_indices`, the glue between the statistics and `geometry.plot`
(`_process_is_par_kwarg`, `_convert_to_funvals_if_needed`, `plot`, `plot_mean/median/variance/std/ci_width`),
`to_arviz_inferencedata` with python-integer (negative) indices, `compute_rhat` argument normalisation and numpy
assignment broadcasting of the chains.

Private helpers are reached through `getattr`: when one has been renamed/removed the stream is skipped and counted
(`skipped_missing_helper`), the public paths (`plot*`, `to_arviz_inferencedata`, `compute_rhat`) are always run."""
import random
import numpy as np
from fractions import Fraction
from harness.core import quiet, q, qv, qm, pv, pm
from harness.props.c19 import close      # the margin-recording comparison


def wrap(k, n):
    k = int(k)
    if 0 <= k < n:
        return k
    if -n <= k < 0:
        return k + n
    return None


def distinct_cols(rng, shape, N, lo=-9, hi=9):
    """integer-valued array shape+(N,) whose N samples are pairwise different (so a plotted sample identifies its index)"""
    d = int(np.prod(shape))
    while True:
        a = np.array([rng.randint(lo, hi) for _ in range(d * N)], dtype=float).reshape(tuple(shape) + (N,))
        cols = {tuple(a.reshape(d, N)[:, i]) for i in range(N)}
        if len(cols) == N:
            return a
        hi += 3


IDENT_1D = ("default", "cont1d", "discrete", "names", "map-aff-cont")


class _Dry:
    """stand-in for the check context during the dry pass (collects the model lines, records nothing)"""
    def __init__(self, ctx):
        self.seed, self.scale, self.tier = ctx.seed, ctx.scale, ctx.tier
        self.failures, self.extra_cov = [], {}
    def case(self, *a, **k):
        pass
    def fail(self, key, *a, **k):
        self.failures.append({"key": key})
    def disagree(self, *a, **k):
        pass
    def note(self, *a, **k):
        pass


def run_ext(ctx, cuqi):
    """two passes over the same deterministic streams: a dry pass collects every model line, ONE driver call answers them
    all (the build lock is taken once), the real pass looks the answers up"""
    collected = []
    nmiss = [0]

    def dry_drive(lines):
        collected.extend(lines)
        return ["?"] * len(lines)

    st0 = np.random.get_state()
    try:
        _ext_body(_Dry(ctx), cuqi, dry_drive)
        answers = dict(zip(collected, ctx.lean.drive(collected)))

        def lookup(lines):
            miss = [l for l in lines if l not in answers]
            nmiss[0] += len(miss)
            if miss:
                answers.update(zip(miss, ctx.lean.drive(miss)))
            return [answers[l] for l in lines]

        _ext_body(ctx, cuqi, lookup)
        ctx.extra_cov.setdefault("session3_access_glue", {})["model_lines"] = {"answered_in_one_driver_call": len(collected), "asked_again": nmiss[0]}
    finally:
        np.random.set_state(st0)


def _ext_body(ctx, cuqi, drive):
    from harness.props import c19 as base
    from cuqi.samples import Samples
    import cuqi.samples._samples as smod
    rng = random.Random(f"C19-ext-{ctx.seed}")
    K = ctx.scale
    hist = {"ops": {}, "sub_index_forms": {}, "refusals": {}, "skipped_missing_helper": 0}

    def bump(d, k, n=1):
        d[k] = d.get(k, 0) + n

    sub_fn = getattr(Samples, "_sub_samples", None)
    sel_fn = getattr(Samples, "_select_random_indices", None)

    def shape_str(arr):
        return ",".join(str(int(v)) for v in arr.shape[:-1]) or "_"

    def flags_of(rep, arr):
        return {"par": (True, True), "vec": (False, True), "fun": (False, arr.ndim <= 2)}[rep]

    # ------------------------------------------------------------------ A. histories with _sub_samples and flag re-assignment
    acases = []
    for i in range(260 * K):
        kind = rng.choice(["default", "cont1d", "discrete", "names", "imgC", "imgF", "step", "map-aff-cont"])
        g = base.make_geom(cuqi, rng, kind)
        rep = rng.choice(["par", "par", "vec", "fun"])
        if rep == "vec" and not g.has_vec:
            rep = "fun"
        N = rng.choice([1, 2, 3, 4, 6, 9])
        arr = base.initial_array(rng, g, rep, N)
        base.DTYPE_OF[id(arr)] = rng.choice(["float64", "float64", "int64"]); base.LAYOUT_OF[id(arr)] = rng.choice(["C", "C", "F", "readonly"])
        ops, n_now = [], N
        for _ in range(rng.randint(1, 5)):
            r = rng.random()
            if r < 0.2:
                k = rng.choice([-n_now - 1, -n_now, -1, 0, n_now - 1, n_now]) if rng.random() < 0.4 else rng.randint(-n_now, max(n_now - 1, 0))
                ops.append(("sub", k, rng.choice(["int", "int", "np.int64"])))
                n_now = 1
            elif r < 0.42:
                m = rng.choice([0, 1, 1, 2, 3, 5])
                ks = [rng.randint(-n_now, max(n_now - 1, 0)) for _ in range(m)]
                if ks and rng.random() < 0.15:
                    ks[rng.randrange(m)] = rng.choice([n_now, -n_now - 1])
                ops.append(("subl", ks, rng.choice(["list", "list", "array", "tuple"])))
                n_now = len(ks)
                if m == 0:
                    break      # an empty Samples object is not continued (see docs, "Not modelled")
            elif r < 0.62 and kind in IDENT_1D:
                ops.append((rng.choice(["setvec", "setpar"]), rng.randint(0, 1)))
            elif r < 0.75:
                op = base.gen_bt(rng, n_now)
                ops.append(op)
                if 0 <= op[1] < n_now:
                    n_now = base.ceil_div(n_now - op[1], op[2])
            else:
                ops.append((rng.choice(["fv", "vec", "par"]),))
        acases.append((g, rep, arr, ops))

    def xop_str(op):
        if op[0] == "sub":
            return f"sub:{op[1]}"
        if op[0] == "subl":
            return "subl:" + (",".join(str(k) for k in op[1]) or "_")
        if op[0] in ("setvec", "setpar"):
            return f"{op[0]}:{op[1]}"
        return base.op_str(op)

    def apply_x(S, op):
        if op[0] == "sub":
            return sub_fn(S, int(op[1]) if op[2] == "int" else np.int64(op[1]))
        if op[0] == "subl":
            ks = op[1]
            arg = {"list": list(ks), "array": np.array(ks, dtype=int), "tuple": list(ks)}[op[2]]
            return sub_fn(S, arg)
        if op[0] == "setvec":
            S.is_vec = bool(op[1]); return S
        if op[0] == "setpar":
            S.is_par = bool(op[1]); return S
        return base.apply_op(S, op)

    lines = []
    for g, rep, arr, ops in acases:
        ip, iv = flags_of(rep, arr)
        lines.append(f"seq {g.spec} {shape_str(arr)} {int(ip)} {int(iv)} {qm(base.cols_of(arr))} " + ";".join(xop_str(o) for o in ops))

    # ------------------------------------------------------------------ B. constructor validation, iteration, shape
    icases = []
    for i in range(24 * K):
        g = base.make_geom(cuqi, rng, rng.choice(["default", "cont1d", "imgF", "names"]))
        ip, iv = [(True, True), (True, False), (False, True), (False, False)][i % 4]
        rep = "par" if ip else ("vec" if iv else "fun")
        arr = base.initial_array(rng, g, rep, rng.choice([1, 2, 5]))
        icases.append((g, arr, ip, iv))
    nA = len(lines)
    for g, arr, ip, iv in icases:
        head = f"{g.spec} {shape_str(arr)} {int(ip)} {int(iv)} {qm(base.cols_of(arr))}"
        lines.append("init " + head)
        lines.append("iter " + (head if not (ip and not iv) else f"{g.spec} {shape_str(arr)} 1 1 {qm(base.cols_of(arr))}"))
    outs = drive(lines)

    for (g, rep, arr, ops), out in zip(acases, outs[:nA]):
        ip, iv = flags_of(rep, arr)
        desc = {"geometry": g.spec, "rep": rep, "shape": list(arr.shape), "ops": [xop_str(o) for o in ops], "samples": arr.tolist() if arr.size <= 80 else "array",
                "index_forms": [o[2] for o in ops if o[0] in ("sub", "subl")]}
        ctx.case("access-sequence", {k: desc[k] for k in ("geometry", "rep", "shape", "ops")} | {"h": hash(arr.tobytes()) % 10 ** 6}, nontrivial=arr.shape[-1] >= 2)
        if sub_fn is None and any(o[0] in ("sub", "subl") for o in ops):
            hist["skipped_missing_helper"] += 1
            continue
        mstates = out.split(" | ") if out else []
        with quiet():
            cur = Samples(base.impl_arr(arr), geometry=g.obj, is_par=ip, is_vec=iv)
        for k, op in enumerate(ops):
            bump(hist["ops"], op[0])
            if op[0] in ("sub", "subl"):
                bump(hist["sub_index_forms"], op[2])
            key = f"access:{op[0]}:{g.kind}:{rep}"
            sdesc = {**desc, "step": k, "op": xop_str(op)}
            snap = base.snapshot(cur)
            pre = (np.array(cur.samples, copy=True), cur.is_par, cur.is_vec, cur.geometry)
            R, exc = None, None
            try:
                with quiet():
                    R = apply_x(cur, op)
            except Exception as e:
                exc = type(e).__name__
                bump(hist["refusals"], f"{op[0]}:{exc}")
            st = base.state_str(R, g) if exc is None else "err:" + exc
            m = mstates[k] if k < len(mstates) else "missing"
            if st == "nonfinite":
                break
            if not base.states_equal(m, st, exact=g.exact, tol=1e-12):
                nf = len(ctx.failures)
                # oracle at this input: the selected stored samples in order, flags and geometry kept, source untouched
                if op[0] in ("sub", "subl"):
                    n = pre[0].shape[-1]
                    idx = [op[1]] if op[0] == "sub" else list(op[1])
                    w = [wrap(j, n) for j in idx]
                    if None in w:
                        if exc != "IndexError":
                            ctx.fail(key + ":index", sdesc, "IndexError", st[:120], "an index outside [-Ns, Ns) is not refused")
                    elif pre[1] and not pre[2]:
                        if exc != "ValueError":
                            ctx.fail(key + ":flags", sdesc, "ValueError (is_par and not is_vec)", st[:120], "the constructor validation of is_vec is bypassed")
                    elif exc is not None:
                        ctx.fail(key + ":refused", sdesc, f"stored samples {w}", exc, "valid sample indices refused")
                    else:
                        got = np.asarray(R.samples)
                        good = got.shape == pre[0].shape[:-1] + (len(w),) and all(np.array_equal(got[..., j], pre[0][..., wj]) for j, wj in enumerate(w))
                        if not good or (R.is_par, R.is_vec) != pre[1:3] or not (R.geometry is pre[3] or R.geometry == pre[3]):
                            ctx.fail(key + ":selection", sdesc, f"stored samples {w} in that order, flags and geometry kept", st[:200], "_sub_samples does not return exactly the selected stored samples")
                    if not base.untouched(cur, snap, strict=False):
                        ctx.fail(key + ":source", sdesc, "source unchanged", "changed", "_sub_samples modified its source")
                elif op[0] == "bt" and op[1] >= 0 and op[2] >= 1:
                    base.oracle_burnthin(ctx, key, sdesc, cur, op[1], op[2], R, exc)
                elif op[0] in ("fv", "vec", "par") and exc is None and (cur.is_vec or not cur.is_par):
                    base.oracle_convert(ctx, key, sdesc, cur, op[0], R, g)
                elif op[0] == "setvec":
                    want = "err:ValueError" if (pre[1] and not op[1]) else "accepted"
                    got = "err:" + exc if exc else "accepted"
                    if want != got:
                        ctx.fail(key + ":validation", sdesc, want, got, "the is_vec setter does not refuse exactly is_par and not is_vec")
                ctx.disagree(base.fkey(ctx, nf, key), sdesc, m[:300], st[:300], "state after the call differs between model and implementation")
                break
            if exc is not None:
                break
            cur = R
            if isinstance(R.samples, np.ndarray) and R.samples.shape[-1] == 0:
                break

    for ci, (g, arr, ip, iv) in enumerate(icases):
        o_init, o_iter = outs[nA + 2 * ci], outs[nA + 2 * ci + 1]
        desc = {"geometry": g.spec, "shape": list(arr.shape), "is_par": ip, "is_vec": iv, "samples": arr.tolist()}
        ctx.case("init-iter", {k: desc[k] for k in ("geometry", "shape", "is_par", "is_vec")} | {"h": hash(arr.tobytes()) % 10 ** 6})
        try:
            with quiet():
                S = Samples(base.impl_arr(arr), geometry=g.obj, is_par=(np.bool_(ip) if ci % 3 == 0 else ip), is_vec=iv)
            st = base.state_str(S, g)
        except Exception as e:
            S, st = None, "err:" + type(e).__name__
            bump(hist["refusals"], "init:" + type(e).__name__)
        if st != o_init:
            nf = len(ctx.failures)
            want = "err:ValueError" if (ip and not iv) else "accepted"
            if (st if st.startswith("err") else "accepted") != want:
                ctx.fail("access:init:validation", desc, want, st[:100], "the constructor does not refuse exactly is_par and not is_vec")
            ctx.disagree(base.fkey(ctx, nf, "access:init"), desc, o_init[:200], st[:200], "constructor result differs between model and implementation")
        if S is None:
            with quiet():
                S = Samples(base.impl_arr(arr), geometry=g.obj)
        with quiet():
            its = [np.asarray(v, dtype=float).reshape(-1) for v in S]
        impl = (qm(its) if its else "_") + " " + ",".join(str(int(v)) for v in S.shape)
        if impl != o_iter:
            nf = len(ctx.failures)
            if len(its) != arr.shape[-1] or not all(np.array_equal(v, arr[..., j].reshape(-1)) for j, v in enumerate(its)):
                ctx.fail("access:iter:order", desc, "samples[..., i] for i = 0..Ns-1", str([v.tolist() for v in its])[:200], "iteration over a Samples object is not the stored samples in order")
            ctx.disagree(base.fkey(ctx, nf, "access:iter"), desc, o_iter[:200], impl[:200], "iteration / shape differs between model and implementation")

    # ------------------------------------------------------------------ C. _select_random_indices
    sel_cases = [(n, t) for n in (5, 8) for t in (0, 1, 4, 5, 6, 8, 9, 12, 40)] + [(rng.choice([1, 3, 5, 8]), rng.randint(0, 30)) for _ in range(30 * K)]
    if sel_fn is None:
        hist["skipped_missing_helper"] += len(sel_cases)
    else:
        S0 = Samples(np.zeros((2, 3)))
        st0 = np.random.get_state()
        impls = []
        try:
            for j, (n, t) in enumerate(sel_cases):
                np.random.seed((ctx.seed * 1000 + j) % 2 ** 31)
                with quiet():
                    impls.append([int(v) for v in sel_fn(S0, n, t)])
        finally:
            np.random.set_state(st0)
        outs = drive([f"selidx {n} {t} {','.join(map(str, r)) or '_'}" for (n, t), r in zip(sel_cases, impls)])
        for (n, t), r, out in zip(sel_cases, impls, outs):
            ctx.case("select-indices", {"number": n, "total": t, "result": r})
            impl = ",".join(map(str, r)) or "_"
            if impl != out:   # the model sorts the (valid) draw: equal iff the result is sorted, distinct, in range and of the right length
                ctx.disagree("access:select-indices", {"number": n, "total": t}, out, impl, "_select_random_indices is not all indices (total <= number) / a sorted draw of `number` distinct indices below total")
                ctx.fail("access:select-indices", {"number": n, "total": t}, "sorted distinct indices below total, min(number,total) of them", impl, "selection of samples/variables to plot is not a sorted set of valid indices")

    # ------------------------------------------------------------------ D/E. what reaches geometry.plot
    rec = []

    def spy_on(geom):
        geom.plot = lambda values, *a, **kw: (rec.append((np.array(values, dtype=float, copy=True), a, dict(kw))), [None])[1]

    import matplotlib.pyplot as plt
    pcases = []
    for i in range(150 * K):
        kind = rng.choice(["default", "cont1d", "imgC", "imgF", "imgF", "step", "map-aff-img", "discrete"])
        g = base.make_geom(cuqi, rng, kind)
        rep = rng.choice(["par", "vec", "vec", "fun"])
        if rep == "vec" and not g.has_vec:
            rep = "fun"
        N = rng.choice([1, 2, 4, 5, 6, 7, 9, 12])
        shape = {"par": (g.par_dim,), "vec": (g.funvec_dim,), "fun": g.fun_shape}[rep]
        arr = distinct_cols(rng, shape, N)
        r = rng.random()
        if r < 0.3:
            idx = None
        elif r < 0.55:
            idx = ("n", rng.choice([-N - 1, -N, -1, 0, N - 1, N]) if rng.random() < 0.4 else rng.randint(-N, N - 1))
        else:
            ks = [rng.randint(-N, N - 1) for _ in range(rng.choice([0, 1, 2, 3, 6]))]
            if ks and rng.random() < 0.12:
                ks[0] = rng.choice([N, -N - 1])
            idx = ("l", ks)
        kw = rng.choice([0, 0, 0, 2, 1])
        what = rng.choice(["plot", "plot", "mean", "median", "variance", "std", "width"])
        p = rng.choice([95, 50, 0, 100, 0.5, 68, 150, -5]) if what == "width" else 95
        pcases.append((g, rep, arr, idx, kw, what, p))

    KW = {0: {}, 1: {"is_par": True}, 2: {"color": "r", "plot_par": False}}
    impl_out = []
    for g, rep, arr, idx, kw, what, p in pcases:
        ip, iv = flags_of(rep, arr)
        with quiet():
            S = Samples(np.array(arr), geometry=g.obj, is_par=ip, is_vec=iv)
            geom = S.geometry
        spy_on(geom)
        rec.clear()
        exc = None
        np.random.seed((ctx.seed * 7919 + len(impl_out)) % 2 ** 31)     # plot() draws from numpy's global RNG (state restored by run_ext)
        try:
            with quiet():
                if what == "plot":
                    if idx is None:
                        S.plot(**KW[kw])
                    elif idx[0] == "n":
                        S.plot(int(idx[1]) if idx[1] % 2 else np.int64(idx[1]), **KW[kw])
                    else:
                        S.plot(list(idx[1]) if len(idx[1]) % 2 else np.array(idx[1], dtype=int), **KW[kw])
                elif what == "width":
                    S.plot_ci_width(p, **KW[kw])
                else:
                    getattr(S, "plot_" + what)(**KW[kw])
        except Exception as e:
            exc = type(e).__name__
        finally:
            try:
                del geom.plot
            except AttributeError:
                pass
        impl_out.append((S, geom, exc, list(rec)))
    plt.close("all")

    def conv_cols(S, geom, arr, rep):
        """stored samples as plot() shows them: vector-form function values are converted sample by sample"""
        N = arr.shape[-1]
        if rep == "vec":
            with quiet():
                return [np.asarray(geom.vec2fun(np.array(arr[..., i])), dtype=float).reshape(-1) for i in range(N)]
        return [np.array(arr[..., i], dtype=float).reshape(-1) for i in range(N)]

    lines, draws = [], []
    for (g, rep, arr, idx, kw, what, p), (S, geom, exc, rc) in zip(pcases, impl_out):
        ip, iv = flags_of(rep, arr)
        head = f"{g.spec} {shape_str(arr)} {int(ip)} {int(iv)} {qm(base.cols_of(arr))}"
        draw = None
        if what == "plot":
            if idx is None and arr.shape[-1] > 5:
                draw = []
                if exc is None and rc:
                    shown = base.cols_of(rc[-1][0]) if rc[-1][0].ndim >= 2 else np.zeros((0, 0))
                    cands = conv_cols(S, geom, arr, rep)
                    for c in shown:
                        hit = [i for i, v in enumerate(cands) if v.shape == c.shape and np.array_equal(v, c)]
                        draw.append(hit[0] if hit else -1)
                if len(draw) != 5 or -1 in draw or len(set(draw)) != 5:
                    draws.append(draw)
                    draw = [0, 1, 2, 3, 4]
                else:
                    draws.append(draw)
            else:
                draws.append(None)
            ix = "none" if idx is None else (f"n:{idx[1]}" if idx[0] == "n" else "l:" + (",".join(map(str, idx[1])) or "_"))
            lines.append(f"plot {head} {ix} {','.join(map(str, draw)) if draw else '_'} {kw}")
        else:
            draws.append(None)
            lines.append(f"plotstat {head} {what if what != 'std' else 'variance'} {q(p)} {kw}")
    outs = drive(lines)
    phist = {}
    for (g, rep, arr, idx, kw, what, p), (S, geom, exc, rc), out, draw in zip(pcases, impl_out, outs, draws):
        ip, iv = flags_of(rep, arr)
        desc = {"geometry": g.spec, "rep": rep, "shape": list(arr.shape), "call": what, "sample_indices": None if idx is None else idx[1], "user_kwargs": sorted(KW[kw]),
                "percent": p, "samples": arr.tolist() if arr.size <= 80 else "array"}
        ctx.case("plot-glue", {k: desc[k] for k in ("geometry", "rep", "shape", "call", "sample_indices", "user_kwargs", "percent")} | {"h": hash(arr.tobytes()) % 10 ** 6})
        key = f"plotglue:{what}:{g.kind}:{rep}"
        bump(phist, f"{what}:{rep}:" + ("refused:" + exc if exc else "ok"))
        nf = len(ctx.failures)
        N = arr.shape[-1]
        if what == "plot":
            if exc is not None:
                impl = "err:" + exc
            elif not rc:
                impl = "nothing-plotted"
            else:
                vals, _, kws = rc[-1]
                impl = (qm(base.cols_of(vals)) if vals.shape[-1] else "_") + " " + str(int(bool(kws.get("is_par"))))
            if impl != out:
                # oracle: the samples shown are stored samples (converted sample by sample for vector-form function values),
                # those asked for in that order / a sorted set of 5 distinct ones / all of them when Ns <= 5
                if exc is None and rc:
                    cands = conv_cols(S, geom, arr, rep)
                    if idx is None:
                        want = list(range(N)) if N <= 5 else None
                    else:
                        w = [wrap(j, N) for j in ([idx[1]] if idx[0] == "n" else idx[1])]
                        want = None if None in w else w
                    shown = base.cols_of(rc[-1][0])
                    if want is not None and (len(shown) != len(want) or not all(np.array_equal(c, cands[j]) for c, j in zip(shown, want))):
                        ctx.fail(key + ":samples", desc, f"stored samples {want} (function values of vector-form samples)", str(shown.tolist())[:200], "plot does not hand the selected stored samples to the geometry")
                    elif want is None and idx is None and (draw is None or len(draw) != 5 or -1 in draw or len(set(draw)) != 5 or draw != sorted(draw)):
                        ctx.fail(key + ":samples", desc, "5 distinct stored samples in chain order", str(draw), "plot does not hand a sorted selection of stored samples to the geometry")
                    if bool(rc[-1][2].get("is_par")) != ip:
                        ctx.fail(key + ":is_par", desc, ip, rc[-1][2].get("is_par"), "plot passes the wrong representation flag to the geometry")
                ctx.disagree(base.fkey(ctx, nf, key), desc, out[:300], impl[:300], "what plot hands to geometry.plot differs between model and implementation")
            continue
        # statistics plots
        tol = 1e-12 if what in ("mean", "median") else 1e-10
        ok_model = None
        if exc is not None or not rc:
            impl = "err:" + exc if exc else "nothing-plotted"
            ok_model = (impl == out) or (out.startswith("err:") and exc is not None and out == "err:" + exc)
        else:
            vals, _, kws = rc[-1]
            flat = [float(x) for x in np.asarray(vals, dtype=float).reshape(-1)]
            if what == "std":
                flat = [x * x for x in flat]
            toks = out.split(" ")
            ok_model = (len(toks) == 2 and not toks[0].startswith("err") and len(pv(toks[0])) == len(flat)
                        and all(close(a, float(b), tol) for a, b in zip(flat, pv(toks[0]))) and toks[1] == str(int(bool(kws.get("is_par")))))
            impl = str(flat)[:200] + " " + str(int(bool(kws.get("is_par"))))
            # oracle (every case): the plotted statistic of vector-form function values is the statistic of the converted samples
            cands = conv_cols(S, geom, arr, rep)
            chains = np.array(cands).T            # coordinate x sample
            qs = Fraction(float(p))
            good = len(flat) == chains.shape[0]
            if good and not (what == "width" and not (0 <= qs <= 100)):
                for k_, ch in enumerate(chains):
                    fr = [Fraction(float(x)) for x in ch]
                    mu = sum(fr) / N
                    if what == "mean":
                        w_ = mu
                    elif what == "median":
                        s_ = sorted(fr); w_ = s_[N // 2] if N % 2 else (s_[N // 2 - 1] + s_[N // 2]) / 2
                    elif what in ("variance", "std"):
                        w_ = sum((x - mu) ** 2 for x in fr) / N
                    else:
                        lb = (100 - qs) / 2
                        w_ = base.frac_percentile(ch, 100 - lb) - base.frac_percentile(ch, lb)
                    if not close(flat[k_], float(w_), tol):
                        good = False
                        break
            if not good:
                ctx.fail(key + ":value", desc, "per-coordinate statistic of the (converted) samples", str(flat)[:200], f"plot_{what} does not show the statistic of the function values of the stored samples")
            if bool(kws.get("is_par")) != ip:
                ctx.fail(key + ":is_par", desc, ip, kws.get("is_par"), "a statistics plot passes the wrong representation flag to the geometry")
        if not ok_model:
            ctx.disagree(base.fkey(ctx, nf, key), desc, out[:300], impl[:300], "what a statistics plot hands to geometry.plot differs between model and implementation")
    hist["plot_glue"] = phist

    # ------------------------------------------------------------------ F. to_arviz_inferencedata with python integers (negative wrap)
    fcases = []
    for i in range(70 * K):
        kind = rng.choice(["default", "discrete", "names", "names", "step", "imgF"])
        g = base.make_geom(cuqi, rng, kind)
        rep = "vec" if (kind == "step" and rng.random() < 0.6) else "par"
        arr = base.initial_array(rng, g, rep, rng.choice([2, 4]))
        base.DTYPE_OF[id(arr)] = "float64"; base.LAYOUT_OF[id(arr)] = "C"
        d = arr.shape[0]
        m = rng.choice([1, 1, 2, 3])
        ks = [rng.randint(-d, d - 1) for _ in range(m)]
        if rng.random() < 0.2:
            ks[rng.randrange(m)] = rng.choice([d, -d - 1, g.par_dim, -g.par_dim - 1])
        fcases.append((g, rep, arr, ks, rng.choice(["list", "array"])))
    outs = drive([f"arvizi {g.spec} {arr.shape[0]} {int(rep == 'par')} 1 {qm(base.cols_of(arr))} {','.join(map(str, ks))}" for g, rep, arr, ks, form in fcases])
    ahist = {}
    for (g, rep, arr, ks, form), out in zip(fcases, outs):
        desc = {"geometry": g.spec, "rep": rep, "shape": list(arr.shape), "variable_indices": ks, "passed_as": form, "samples": arr.tolist()}
        ctx.case("arviz-int-indices", {k: desc[k] for k in ("geometry", "rep", "shape", "variable_indices", "passed_as")} | {"h": hash(arr.tobytes()) % 10 ** 6})
        with quiet():
            S = Samples(np.array(arr), geometry=g.obj, is_par=(rep == "par"), is_vec=True)
        try:
            with quiet():
                dd = S.to_arviz_inferencedata(list(ks) if form == "list" else np.array(ks, dtype=int))
            impl = ";".join(f"{k}={qv(v)}" for k, v in dd.items()) or "_"
        except Exception as e:
            dd, impl = None, "err:" + type(e).__name__
        bump(ahist, ("neg" if any(k < 0 for k in ks) else "nonneg") + ":" + ("refused" if dd is None else "ok"))
        if impl != out:
            nf = len(ctx.failures)
            names = list(S.geometry.variables)
            d = arr.shape[0]
            w = [wrap(k, d) for k in ks]
            key = f"arvizi:{g.kind}:{rep}"
            if len(names) == d and len(set(names)) == d and None not in w and len(set(w)) == len(w):
                vals = None if dd is None else list(dd.items())
                if vals is None or len(vals) != len(w) or not all(nm == names[j] and np.array_equal(v, arr[j]) for (nm, v), j in zip(vals, w)):
                    ctx.fail(key + ":chains", desc, f"variables {w} (negative indices count from the end), each with its own chain", impl[:200], "the dictionary for arviz is not each requested variable's own chain under its own name")
            ctx.disagree(base.fkey(ctx, nf, key), desc, out[:300], impl[:300], "dictionary built from integer variable indices differs between model and implementation")
    hist["arviz_int_indices"] = ahist

    # ------------------------------------------------------------------ H. further index kinds of _sub_samples: slice / boolean mask / boolean scalar / 2-D index
    hcases = []
    for i in range(220 * K):
        kind = rng.choice(["default", "cont1d", "imgC", "imgF", "names", "step"])
        g = base.make_geom(cuqi, rng, kind)
        rep = rng.choice(["par", "par", "vec", "fun"])
        if rep == "vec" and not g.has_vec:
            rep = "fun"
        N = rng.choice([1, 2, 3, 5, 6, 9])
        arr = base.initial_array(rng, g, rep, N)
        base.DTYPE_OF[id(arr)] = rng.choice(["float64", "float64", "int64"]); base.LAYOUT_OF[id(arr)] = rng.choice(["C", "C", "F"])
        r = rng.random()
        fld = lambda lo, hi: None if rng.random() < 0.3 else rng.randint(lo, hi)
        if r < 0.45:
            t = rng.choice([None, 1, 2, 3, -1, -2, -3, N, -N, 0]) if rng.random() < 0.9 else rng.randint(-N - 2, N + 2)
            op = ("sls", fld(-N - 2, N + 2), fld(-N - 2, N + 2), t)
        elif r < 0.7:
            m = [rng.random() < 0.5 for _ in range(N if rng.random() < 0.85 else rng.choice([max(N - 1, 0), N + 1]))]
            op = ("mask", m, rng.choice(["list", "array"]) if m else "array")     # an empty python list is an (integer) index list, not a mask
        elif r < 0.78:
            op = ("bsc", rng.random() < 0.6)
        else:
            R, C = rng.randint(1, 3), rng.randint(1, 3)
            rows = [[rng.randint(-N, N - 1) for _ in range(C)] for _ in range(R)]
            q_ = rng.random()
            if q_ < 0.12:
                rows[rng.randrange(R)][rng.randrange(C)] = rng.choice([N, -N - 1])
            elif q_ < 0.2 and R >= 2:
                rows[-1] = rows[-1] + [0]
            op = ("grid", rows, rng.choice(["list", "array"]))
        ops = [op]
        if op[0] in ("sls", "mask") and rng.random() < 0.5:
            ops.append(rng.choice([("fv",), ("par",), ("vec",), ("bt", 0, 1), ("bt", 1, 2)]))
        hcases.append((g, rep, arr, ops))

    def hop_str(op):
        if op[0] == "sls":
            return "sls:" + ":".join("N" if v is None else str(v) for v in op[1:4])
        if op[0] == "mask":
            return "mask:" + ("".join("1" if b else "0" for b in op[1]) or "_")
        if op[0] == "bsc":
            return f"bsc:{int(op[1])}"
        if op[0] == "grid":
            return "grid:" + "|".join(",".join(map(str, r_)) for r_ in op[1])
        return base.op_str(op)

    def apply_h(S, op):
        if op[0] == "sls":
            return sub_fn(S, slice(op[1], op[2], op[3]))
        if op[0] == "mask":
            return sub_fn(S, list(op[1]) if op[2] == "list" else np.array(op[1], dtype=bool))
        if op[0] == "bsc":
            return sub_fn(S, bool(op[1]))
        if op[0] == "grid":
            ragged = len({len(r_) for r_ in op[1]}) > 1
            return sub_fn(S, [list(r_) for r_ in op[1]] if (op[2] == "list" or ragged) else np.array(op[1], dtype=int))
        return base.apply_op(S, op)

    hlines = []
    for g, rep, arr, ops in hcases:
        ip, iv = flags_of(rep, arr)
        hlines.append(f"seq {g.spec} {shape_str(arr)} {int(ip)} {int(iv)} {qm(base.cols_of(arr))} " + ";".join(hop_str(o) for o in ops))
    houts = drive(hlines)
    hh = {}
    for (g, rep, arr, ops), out in zip(hcases, houts):
        ip, iv = flags_of(rep, arr)
        desc = {"geometry": g.spec, "rep": rep, "shape": list(arr.shape), "ops": [hop_str(o) for o in ops], "samples": arr.tolist() if arr.size <= 80 else "array"}
        ctx.case("index-kinds", {k: desc[k] for k in ("geometry", "rep", "shape", "ops")} | {"h": hash(arr.tobytes()) % 10 ** 6})
        if sub_fn is None:
            hist["skipped_missing_helper"] += 1
            continue
        mstates = out.split(" | ") if out else []
        with quiet():
            cur = Samples(base.impl_arr(arr), geometry=g.obj, is_par=ip, is_vec=iv)
        for k, op in enumerate(ops):
            key = f"index:{op[0]}:{g.kind}:{rep}"
            pre = np.array(cur.samples, copy=True)
            snap = base.snapshot(cur)
            R, exc = None, None
            try:
                with quiet():
                    R = apply_h(cur, op)
            except Exception as e:
                exc = type(e).__name__
            bump(hh, op[0] + ":" + (exc or "ok"))
            st = base.state_str(R, g) if exc is None else "err:" + exc
            m = mstates[k] if k < len(mstates) else "missing"
            if st == "nonfinite":
                break
            if not base.states_equal(m, st, exact=g.exact, tol=1e-12):
                nf = len(ctx.failures)
                n = pre.shape[-1]
                want = None
                if op[0] == "sls" and op[3] != 0:
                    want = list(range(*slice(op[1], op[2], op[3]).indices(n)))
                elif op[0] == "mask" and len(op[1]) == n:
                    want = [j for j, b in enumerate(op[1]) if b]
                if want is not None:
                    got = None if exc is not None else np.asarray(R.samples)
                    if got is None or got.shape != pre.shape[:-1] + (len(want),) or not all(np.array_equal(got[..., j], pre[..., wj]) for j, wj in enumerate(want)) \
                            or (R.is_par, R.is_vec) != (cur.is_par, cur.is_vec):
                        ctx.fail(key + ":selection", {**desc, "step": k}, f"stored samples {want} in that order, flags kept", st[:200], "_sub_samples(slice / mask) does not return exactly the selected stored samples")
                    if not base.untouched(cur, snap, strict=False):
                        ctx.fail(key + ":source", {**desc, "step": k}, "source unchanged", "changed", "_sub_samples modified its source")
                elif op[0] == "bt" and op[1] >= 0 and op[2] >= 1:
                    base.oracle_burnthin(ctx, key, {**desc, "step": k}, cur, op[1], op[2], R, exc)
                elif op[0] in ("fv", "vec", "par") and exc is None:
                    base.oracle_convert(ctx, key, {**desc, "step": k}, cur, op[0], R, g)
                ctx.disagree(base.fkey(ctx, nf, key), {**desc, "step": k}, m[:300], st[:300], "state after _sub_samples(slice / mask / boolean / 2-D index) differs between model and implementation")
                break
            if exc is not None or op[0] in ("bsc", "grid") or R.samples.shape[-1] == 0:
                break
            cur = R
    hist["index_kinds"] = hh

    # ------------------------------------------------------------------ I. plot_ci: what reaches geometry.plot / geometry.plot_envelope
    from cuqi.geometry import Image2D as _I2, Continuous2D as _C2
    ccases = []
    for i in range(130 * K):
        kind = rng.choice(["imgC", "imgF", "imgF", "c2d", "cont1d", "default", "step", "map-aff-img", "discrete"])
        g = base.make_geom(cuqi, rng, kind)
        rep = rng.choice(["par", "par", "vec", "fun"])
        if rep == "vec" and not g.has_vec:
            rep = "fun"
        N = rng.choice([1, 2, 3, 4, 7, 10])
        shape = {"par": (g.par_dim,), "vec": (g.funvec_dim,), "fun": g.fun_shape}[rep]
        arr = np.array([rng.randint(-9, 9) for _ in range(int(np.prod(shape)) * N)], dtype=float).reshape(tuple(shape) + (N,))
        p = rng.choice([95, 50, 0, 100, 0.5, 68, 99.9, 150, -250]) if rng.random() < 0.8 else rng.uniform(0, 100)
        opt = {"exact": rng.random() < 0.3, "kw_is_par": rng.random() < 0.08, "pe_is_par": rng.random() < 0.08,
               "kw_pp": rng.choice([None, None, None, True, False]), "pe_pp": rng.choice([None, None, None, True, False]), "pe_extra": rng.random() < 0.3}
        ccases.append((g, rep, arr, p, opt))
    cimpl, clines = [], []
    for g, rep, arr, p, opt in ccases:
        ip, iv = flags_of(rep, arr)
        with quiet():
            S = Samples(np.array(arr), geometry=g.obj, is_par=ip, is_vec=iv)
            geom = S.geometry
        calls = []
        geom.plot = lambda values, *a, _c=calls, **kw: (_c.append(("P", np.array(values, dtype=float, copy=True), dict(kw))), [None])[1]
        geom.plot_envelope = lambda lo, hi, *a, _c=calls, **kw: (_c.append(("E", np.array(lo, dtype=float, copy=True), np.array(hi, dtype=float, copy=True), dict(kw))), [None])[1]
        kw, pe = {}, {}
        if opt["exact"]:
            kw["exact"] = np.ones(g.par_dim if ip else int(np.prod(g.fun_shape)))
        if opt["kw_is_par"]:
            kw["is_par"] = ip
        if opt["kw_pp"] is not None:
            kw["plot_par"] = opt["kw_pp"]
        if opt["pe_is_par"]:
            pe["is_par"] = ip
        if opt["pe_pp"] is not None:
            pe["plot_par"] = opt["pe_pp"]
        if opt["pe_extra"]:
            pe["facecolor"] = "r"
        if pe or opt["pe_extra"]:
            kw["plot_envelope_kwargs"] = pe
        exc = None
        try:
            with quiet():
                S.plot_ci(p, **kw)
        except Exception as e:
            exc = type(e).__name__
        finally:
            for nm in ("plot", "plot_envelope"):
                try:
                    delattr(geom, nm)
                except AttributeError:
                    pass
        cimpl.append((exc, calls))
        g2d = type(geom) is _I2 or type(geom) is _C2
        ob = lambda v: "n" if v is None else str(int(v))
        clines.append(f"plotci {g.spec} {shape_str(arr)} {int(ip)} {int(iv)} {qm(base.cols_of(arr))} {q(p)} {int(opt['exact'])} {int(opt['kw_is_par'])} {int(opt['pe_is_par'])} {ob(opt['kw_pp'])} {ob(opt['pe_pp'])} {int(g2d)}")
    plt.close("all")
    couts = drive(clines)
    chist = {}
    for (g, rep, arr, p, opt), (exc, calls), out in zip(ccases, cimpl, couts):
        ip, iv = flags_of(rep, arr)
        desc = {"geometry": g.spec, "rep": rep, "shape": list(arr.shape), "percent": p, "options": opt, "samples": arr.tolist() if arr.size <= 80 else "array"}
        ctx.case("plot-ci", {k: desc[k] for k in ("geometry", "rep", "shape", "percent", "options")} | {"h": hash(arr.tobytes()) % 10 ** 6})
        key = f"plotci:{g.kind}:{rep}"
        nf = len(ctx.failures)
        N = arr.shape[-1]
        ok_model = True
        if exc is not None:
            bump(chist, "refused:" + exc)
            ok_model = (out == "err:" + exc)
            impl = "err:" + exc
        else:
            mcalls = out.split(" | ") if not out.startswith("err") else None
            impl = " | ".join(c[0] + " " + " ".join(str(np.asarray(x).reshape(-1).tolist())[:60] for x in c[1:-1]) + " " + str({k: v for k, v in c[-1].items() if k in ("is_par", "plot_par")}) for c in calls)
            bump(chist, ("2d" if calls and calls[0][0] == "P" else "envelope") + (":exact" if opt["exact"] else ""))
            if mcalls is None or len(mcalls) != len(calls):
                ok_model = False
            else:
                for mc, c in zip(mcalls, calls):
                    t_ = mc.split(" ")
                    if t_[0] == "P" and c[0] == "P":
                        flat = [float(x) for x in c[1].reshape(-1)]
                        ipk = c[2].get("is_par", None)
                        ok_model &= len(pv(t_[1])) == len(flat) and all(close(a, float(b), 1e-10) for a, b in zip(flat, pv(t_[1]))) and t_[2] == ("n" if ipk is None else str(int(bool(ipk))))
                    elif t_[0] == "X" and c[0] == "P":
                        ok_model &= t_[1] == str(int(bool(c[2].get("is_par")))) and t_[2] == str(int(bool(c[2].get("plot_par")))) and "is_par" in c[2] and "plot_par" in c[2]
                    elif t_[0] == "E" and c[0] == "E":
                        lo_, hi_ = [float(x) for x in c[1].reshape(-1)], [float(x) for x in c[2].reshape(-1)]
                        ok_model &= (len(pv(t_[1])) == len(lo_) and all(close(a, float(b), 1e-10) for a, b in zip(lo_, pv(t_[1]))) and all(close(a, float(b), 1e-10) for a, b in zip(hi_, pv(t_[2])))
                                     and t_[3] == str(int(bool(c[3].get("is_par")))) and t_[4] == str(int(bool(c[3].get("plot_par")))))
                    else:
                        ok_model = False
            # oracle (every accepted call): the bounds handed to the geometry are the exact per-coordinate percentiles of the stored samples
            pf = Fraction(float(p))
            if 0 <= pf <= 100:
                lbq = (100 - pf) / 2
                chains = arr.reshape(-1, N)
                wl = [float(base.frac_percentile(ch, lbq)) for ch in chains]
                wu = [float(base.frac_percentile(ch, 100 - lbq)) for ch in chains]
                env = [c for c in calls if c[0] == "E"]
                if env:
                    glo, gup = env[0][1].reshape(-1), env[0][2].reshape(-1)
                else:
                    ps = [c for c in calls if c[0] == "P" and "is_par" not in c[2]]
                    glo, gup = (ps[-1][1].reshape(-1), ps[-2][1].reshape(-1)) if len(ps) >= 3 else ([], [])
                if len(glo) != len(wl) or not all(close(a, b, 1e-10) for a, b in zip(glo, wl)) or not all(close(a, b, 1e-10) for a, b in zip(gup, wu)):
                    ctx.fail(key + ":bounds", desc, [wl[:6], wu[:6]], [list(map(float, glo))[:6], list(map(float, gup))[:6]], "the bounds plot_ci hands to the geometry are not the per-coordinate percentiles of the stored samples")
        if not ok_model:
            ctx.disagree(base.fkey(ctx, nf, key), desc, out[:300], impl[:300], "calls made by plot_ci on the geometry differ between model and implementation")
    hist["plot_ci"] = chist

    # ------------------------------------------------------------------ J. JointSamples whose members have different numbers of samples
    from cuqi.samples import JointSamples
    jc = []
    for i in range(90 * K):
        lens = rng.choice([(3, 7), (7, 3), (2, 5, 9), (6, 12), (1, 4), (5, 5, 8), (9, 2, 4)])
        members = []
        for j, n_ in enumerate(lens):
            g = base.make_geom(cuqi, rng, rng.choice(["default", "cont1d", "names", "one", "imgF"]))
            a = base.initial_array(rng, g, "par", n_)
            base.DTYPE_OF[id(a)] = "float64"; base.LAYOUT_OF[id(a)] = "C"
            members.append((["x", "d", "s"][j], g, a))
        b = rng.choice([0, 1, min(lens) - 1, min(lens), min(lens) + 1, max(lens) - 1, max(lens)])
        jc.append((members, ("bt", max(b, 0), rng.choice([1, 2, 3, max(lens)]))))
    jl = []
    for members, op in jc:
        toks, toks2 = ["joint", str(op[1]), str(op[2])], ["jointstat"]
        for k, g, a in members:
            toks += [k, g.spec, str(a.shape[0]), "1", "1", qm(base.cols_of(a))]
            toks2 += [k, g.spec, str(a.shape[0]), "1", "1", qm(base.cols_of(a))]
        jl += [" ".join(toks), " ".join(toks2)]
    jo = drive(jl)
    jh = {}
    for ci, (members, op) in enumerate(jc):
        o_bt, o_st = jo[2 * ci], jo[2 * ci + 1]
        desc = {"members": [(k, g.spec, list(a.shape)) for k, g, a in members], "op": base.op_str(op), "samples": {k: a.tolist() for k, g, a in members}}
        ctx.case("joint-lengths", {"members": desc["members"], "op": desc["op"], "h": hash(b"".join(a.tobytes() for _, _, a in members)) % 10 ** 6})
        with quiet():
            J = JointSamples()
            for k, g, a in members:
                J[k] = Samples(np.array(a), geometry=g.obj)
        key = "joint:lengths"
        nf = len(ctx.failures)
        try:
            with quiet():
                R = J.burnthin(op[1], op[2])
            impl = " | ".join(f"{k}:{base.state_str(R[k], g)}" for (k, g, a) in members if k in R) or "_"
        except Exception as e:
            R, impl = None, "err:" + type(e).__name__
        bump(jh, "refused" if R is None else "ok")
        if R is not None:
            for k, g, a in members:
                base.oracle_burnthin(ctx, key + ":member", {**desc, "member": k}, J[k], op[1], op[2], R.get(k), None if k in R else "missing")
        elif all(op[1] < a.shape[-1] for _, _, a in members):
            ctx.fail(key + ":refused", desc, "member-wise result", impl, "JointSamples.burnthin refuses although every member has more samples than the burn-in")
        if impl != o_bt:
            ctx.disagree(base.fkey(ctx, nf, key), desc, o_bt[:300], impl[:300], "joint burnthin with members of different lengths differs between model and implementation")
        # per-member number of samples and statistics
        nf = len(ctx.failures)
        parts = o_st.split(" | ")
        good = len(parts) == len(members)
        for (k, g, a), part in zip(members, parts):
            f_ = part.split(":")
            with quiet():
                mean, var, med = J[k].mean(), J[k].variance(), J[k].median()
            if not (good and f_[0] == k and int(f_[1]) == int(J[k].Ns) and all(close(x, float(y), 1e-12) for x, y in zip(np.reshape(mean, -1), pv(f_[2])))
                    and all(close(x, float(y), 1e-11) for x, y in zip(np.reshape(var, -1), pv(f_[3]))) and all(close(x, float(y), 1e-12) for x, y in zip(np.reshape(med, -1), pv(f_[4])))):
                base.oracle_stats(ctx, key + ":stats", {**desc, "member": k}, np.array(a, dtype=float), 95, (mean, med, var, J[k].std(), None, None))
                ctx.disagree(base.fkey(ctx, nf, key + ":stats"), {**desc, "member": k}, part[:200], str([np.asarray(mean).tolist(), int(J[k].Ns)])[:200], "per-member statistics / Ns differ between model and implementation")
                break
    hist["joint_different_lengths"] = jh

    # ------------------------------------------------------------------ G. compute_rhat: argument forms and numpy broadcasting of the chains
    real_arviz = smod.arviz
    if real_arviz is None:
        ctx.extra_cov["session3_access_glue"] = hist
        return
    seen = []

    class Spy:
        def __getattr__(self, n):
            return getattr(real_arviz, n)
        def rhat(self, d, **kw):
            seen.append(d); return real_arviz.rhat(d, **kw)

    rcases = []
    for i in range(60 * K):
        kind = rng.choice(["default", "cont1d", "discrete", "names"])
        g = base.make_geom(cuqi, rng, kind)
        d, N = g.par_dim, rng.choice([4, 5])
        a0 = np.array([rng.randint(-9, 9) for _ in range(d * N)], dtype=float).reshape(d, N)
        nch = rng.randint(1, 2)
        chs = []
        for _ in range(nch):
            cls = rng.choice(["same", "same", "(d,1)", "(1,N)", "(1,1)", "(N,)", "(1,)", "(1,d,N)", "(1,1,N)", "(d,2)", "(d+1,N)", "(d,N,1)", "(2,d,N)", "(d,)"])
            if g.obj is None and cls in ("(N,)", "(1,)", "(d,)"):
                cls = "(1,N)"     # a 1-D array without a geometry cannot build its default geometry (np.prod(()) is the float 1.0: ValueError) — not a chain
            shp = {"same": (d, N), "(d,1)": (d, 1), "(1,N)": (1, N), "(1,1)": (1, 1), "(N,)": (N,), "(1,)": (1,), "(1,d,N)": (1, d, N), "(1,1,N)": (1, 1, N),
                   "(d,2)": (d, 2), "(d+1,N)": (d + 1, N), "(d,N,1)": (d, N, 1), "(2,d,N)": (2, d, N), "(d,)": (d,)}[cls]
            chs.append((cls, np.array([rng.randint(-9, 9) for _ in range(int(np.prod(shp)))], dtype=float).reshape(shp)))
        how = rng.choice(["list", "list", "list", "single", "tuple", "generator", "dict", "none"])
        if how == "single" and nch != 1:
            how = "list"
        rcases.append((g, a0, chs, how))
    lines = []
    for g, a0, chs, how in rcases:
        toks = ["rhatb", {"list": "list", "single": "single"}.get(how, "other"), g.spec, str(a0.shape[0]), "1", "1", qm(base.cols_of(a0))]
        for cls, a in chs:
            # geometry=None: every Samples object builds its own default geometry from ITS array (prod(shape[:-1]) variables)
            cspec = g.spec if g.obj is not None else f"id:{int(np.prod(a.shape[:-1]))}"
            toks += [cspec, shape_str(a), "1", "1", qm(base.cols_of(a))]
        lines.append(" ".join(toks))
    outs = drive(lines)
    rhist = {}
    smod.arviz = Spy()
    try:
        for (g, a0, chs, how), out in zip(rcases, outs):
            desc = {"geometry": g.spec, "self": a0.tolist(), "chains": [(cls, a.tolist()) for cls, a in chs], "chains_passed_as": how}
            ctx.case("rhat-broadcast", {"geometry": g.spec, "shapes": [list(a.shape) for _, a in chs], "how": how, "h": hash(a0.tobytes() + b"".join(a.tobytes() for _, a in chs)) % 10 ** 6})
            with quiet():
                S0 = Samples(np.array(a0), geometry=g.obj)
                Cs = [Samples(np.array(a), geometry=g.obj) for _, a in chs]
            arg = {"list": Cs, "single": Cs[0], "tuple": tuple(Cs), "generator": (c for c in Cs), "dict": {i: c for i, c in enumerate(Cs)}, "none": None}[how]
            seen.clear()
            try:
                with quiet():
                    S0.compute_rhat(arg)
                exc = None
            except Exception as e:
                exc = type(e).__name__
            if seen and exc in (None, "ValueError", "FloatingPointError", "ZeroDivisionError", "RuntimeError"):
                dd = seen[-1]       # what arviz was handed (arviz itself may refuse degenerate chains afterwards)
                impl = ";".join(k + "=" + "/".join(qv(r) for r in np.asarray(v)) for k, v in dd.items()) or "_"
            else:
                impl = "err:" + str(exc)
            mdict = out.split(" # ")[0]
            if how not in ("list", "single") and exc != "TypeError":
                # the code accepts lists only; a container accepted by a more liberal implementation is not held against it here
                bump(rhist, f"{how}:accepted-nonlist")
                continue
            for cls, _ in chs:
                bump(rhist, f"{how}:{cls}:" + ("refused" if impl.startswith("err") else "accepted"))
            if impl != mdict:
                nf = len(ctx.failures)
                key = f"rhatb:{g.kind}:{how}"
                if how in ("list", "single") and all(cls == "same" for cls, _ in chs):
                    d = a0.shape[0]
                    arrs = [a0] + [a for _, a in chs]
                    vals = list(seen[-1].values()) if seen else []
                    if len(vals) != d or not all(np.array_equal(np.asarray(vals[k]), np.stack([a[k] for a in arrs])) for k in range(d)):
                        ctx.fail(key + ":chains", desc, "each variable's own chain from every Samples object, self first", impl[:200], "the dictionary handed to arviz.rhat is not each variable's chains in order")
                ctx.disagree(base.fkey(ctx, nf, key), desc, out[:300], impl[:300], "dictionary handed to arviz.rhat (argument form / broadcasting of the chains) differs between model and implementation")
    finally:
        smod.arviz = real_arviz
    hist["rhat_argument_forms_and_chain_shapes"] = rhist
    ctx.extra_cov["session3_access_glue"] = hist
