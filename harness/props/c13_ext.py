"""C13 — session-3 extension streams (helper module of harness/props/c13.py).

part_scales   : wide dynamic range between steps / entries (every entry of the result only depends on
                its own step / pixel), model tie on dyadic scales + implementation-only oracle
part_klhist   : histories on ONE KLExpansion object against the object model `KLObj` (cache of the scalings)
part_stephist : histories on ONE StepExpansion object against the object model `StepObj` (`_indices` written once)
"""
import math
import numpy as np
from fractions import Fraction
from harness.core import quiet, q, qv
from harness.props.c13 import enc, canon, parse_arr, call, short, step_spec, step_bounds_float


# ----------------------------------------------------------------------------- helpers
MARGIN = {"max_deviation_over_tolerance": 0.0, "comparisons": 0}   # of all passing entrywise-relative comparisons below


def rel_eq(a, b, tol=1e-12, scale=None):
    """entrywise comparison, relative to the entry itself (or to `scale`, same shape): nan==nan, inf==inf,
    0 must be 0.  No absolute slack: an entry of size 1 next to one of size 1e17 must still be right."""
    a, b = np.asarray(a, dtype=float), np.asarray(b, dtype=float)
    if a.shape != b.shape:
        return False
    s = np.maximum(np.abs(a), np.abs(b)) if scale is None else np.asarray(scale, dtype=float)
    for x, y, t in zip(a.ravel(), b.ravel(), np.broadcast_to(s, a.shape).ravel()):
        if math.isnan(x) or math.isnan(y):
            if not (math.isnan(x) and math.isnan(y)):
                return False
        elif math.isinf(x) or math.isinf(y):
            if x != y:
                return False
        elif abs(x - y) > tol * t:
            return False
        elif tol > 0 and t > 0:
            MARGIN["max_deviation_over_tolerance"] = max(MARGIN["max_deviation_over_tolerance"], abs(x - y) / (tol * t))
            MARGIN["comparisons"] += 1
    return True


def ideal_step_of(n, s):
    """documented rule on a regular grid (integers): node k -> step i, first interval closed"""
    out = []
    for k in range(n):
        for i in range(s):
            if (i == 0 and k * s <= (n - 1)) or (i > 0 and i * (n - 1) < k * s <= (i + 1) * (n - 1)):
                out.append(i)
                break
        else:
            out.append(-1)
    return out


SCALES = [2.0 ** 57, 1.0, 2.0 ** -57, 2.0 ** 100, 2.0 ** -100, 2.0 ** 20, 2.0 ** 60, 2.0 ** -30]


def scale_patterns(rng, s):
    """per-step scale vectors: huge-before-small, small-before-huge, random mixes"""
    pats = []
    base = [2.0 ** 57, 1.0, 1.0, 2.0 ** -57, 2.0 ** 100, 1.0, 2.0 ** -100, 2.0 ** 20]
    p = np.array([base[i % len(base)] for i in range(s)])
    pats += [p, p[::-1].copy()]
    for _ in range(2):
        pats.append(np.array([SCALES[rng.randint(len(SCALES))] for _ in range(s)]))
    return pats


def nz_ints(rng, shape):
    v = rng.randint(1, 10, size=shape).astype(float)
    return v * rng.choice([-1.0, 1.0], size=shape)


# ----------------------------------------------------------------------------- part N: scales
STEP_CFG = [(0.0, 1.0, 12, 3), (0.0, 1.0, 6, 3), (-2.0, 0.25, 7, 7), (0.0, 0.5, 9, 4), (0.0, 1.0, 10, 3), (1.0, 2.0, 5, 2),
            ("lin", 0.0, 1.0, 12, 3), ("lin", 0.0, 1.0, 16, 4)]


def part_scales(ctx, cuqi, thorough):
    from cuqi.geometry import StepExpansion, Image2D, Continuous2D, Continuous1D, Discrete, MappedGeometry
    from cuqi.samples import Samples
    from cuqi.array import CUQIarray
    rng = np.random.RandomState(ctx.seed + 1313)
    stats = {"step_cases": 0, "reshape_cases": 0, "nonfinite_probes": 0, "nonfinite_isolated": 0,
             "scale_exponents": {}, "huge_before_small": 0, "small_before_huge": 0}
    lines, meta = [], []
    for cfg in STEP_CFG:
        if cfg[0] == "lin":
            _, a, b, n, s = cfg
            grid = np.linspace(a, b, n)
        else:
            x0, h, n, s = cfg
            grid = x0 + h * np.arange(n)
        member = ideal_step_of(n, s)
        for proj in ("mean", "max", "min"):
            with quiet():
                g = StepExpansion(grid, n_steps=s, fun2par_projection=proj)
            spec = step_spec(grid, s, proj, bounds=step_bounds_float(grid, s))
            name = "StepExpansion"
            for sc in scale_patterns(rng, s):
                for e in sc:
                    k = str(int(round(math.log2(e))))
                    stats["scale_exponents"][k] = stats["scale_exponents"].get(k, 0) + 1
                d = np.diff(np.log2(sc))
                stats["huge_before_small"] += int((d < -40).any())
                stats["small_before_huge"] += int((d > 40).any())
                # parameters: single and batch (ordinary | pattern | reversed pattern)
                P1 = nz_ints(rng, (s,)) * sc
                PB = np.stack([nz_ints(rng, (s,)), nz_ints(rng, (s,)) * sc, nz_ints(rng, (s,)) * sc[::-1]], axis=-1)
                # arbitrary function values with one scale per step (in-step sums are exact)
                nsc = np.array([sc[i] if i >= 0 else 1.0 for i in member])
                F1 = nz_ints(rng, (n,)) * nsc
                FB = np.stack([nz_ints(rng, (n,)), nz_ints(rng, (n,)) * nsc, nz_ints(rng, (n,)) * nsc[::-1]], axis=-1)
                for op, X in (("par2fun", P1), ("par2fun", PB), ("fun2par", F1), ("fun2par", FB)):
                    lines.append(f"map {spec} {op} {enc(X)}")
                    meta.append((g, name, proj, spec, op, X, sc, member))
    outs = yield lines
    for (g, name, proj, spec, op, X, sc, member), out in zip(meta, outs):
        stats["step_cases"] += 1
        kind = "single" if X.ndim == 1 else "batch"
        key = f"scales:{name}:{proj}:{op}:{kind}"
        desc = {"geometry": spec[:80], "projection": proj, "op": op, "input": short(X.tolist(), 200)}
        ctx.case(f"scales-step-{op}", desc)
        y = call(getattr(g, op), X.copy())
        m, im = parse_arr(out), canon(y)
        ok = (not isinstance(m, str)) and (not isinstance(im, str)) and m[0] == im[0] and \
            rel_eq(np.array([float(v) for v in m[1]]), np.array(im[1]), 0.0 if op == "par2fun" else 1e-12)
        if not ok:
            ctx.disagree(key, desc, short(out), short(im), "step map differs from the exact model on inputs whose steps have very different magnitudes")
        scales_step_oracle(ctx, key, desc, g, proj, op, X, member)
    # Samples / CUQIarray through a step geometry, wide range
    for proj in ("mean", "max", "min"):
        grid = np.arange(12.0)
        with quiet():
            g = StepExpansion(grid, n_steps=3, fun2par_projection=proj)
        P = np.stack([np.array([2.0 ** 57, 1.0, -2.5]), np.array([3.0, 2.0 ** -57, 2.0 ** 100]), np.array([-1.0, 2.0 ** 60, 5.0])], axis=-1)
        desc = {"geometry": "StepExpansion(arange(12),3)", "projection": proj, "P": short(P.tolist(), 200)}
        ctx.case("scales-samples", desc)
        back = call(lambda: Samples(P.copy(), geometry=g).funvals.parameters.samples)
        if isinstance(back, BaseException) or not rel_eq(back, P):
            ctx.fail(f"scales:StepExpansion:{proj}:Samples:roundtrip", desc, short(P.tolist()), short(repr(back)),
                     "Samples.funvals.parameters does not return the parameter samples (entrywise, relative 1e-12)")
        for j in range(P.shape[1]):
            cb = call(lambda: CUQIarray(P[:, j].copy(), geometry=g).funvals.parameters.to_numpy())
            if isinstance(cb, BaseException) or not rel_eq(cb, P[:, j]):
                ctx.fail(f"scales:StepExpansion:{proj}:CUQIarray:roundtrip", {**desc, "column": j}, P[:, j].tolist(), short(repr(cb)),
                         "CUQIarray.funvals.parameters does not return the parameters (entrywise, relative 1e-12)")
    # reshape-type geometries move data: bit-exact for every entry, also non-finite ones
    spec_vals = [2.0 ** 57, 1.0, -2.5, 2.0 ** -57, -3e18, 1e30, 1e-30, 0.0, float("inf"), float("-inf"), float("nan"), 5e-324, 1.7e308]
    for name, mk, pd in [("Image2D-C", lambda: Image2D((3, 4), order="C"), 12), ("Image2D-F", lambda: Image2D((3, 4), order="F"), 12),
                         ("Continuous2D", lambda: Continuous2D((3, 4)), 12), ("Continuous1D", lambda: Continuous1D(6), 6),
                         ("Discrete", lambda: Discrete(5), 5)]:
        with quiet():
            g = mk()
        for ns in (None, 3):
            stats["reshape_cases"] += 1
            P = np.array([spec_vals[rng.randint(len(spec_vals))] for _ in range(pd * (ns or 1))]).reshape((pd,) if ns is None else (pd, ns))
            desc = {"geometry": name, "P": short(P.tolist(), 200)}
            ctx.case("scales-reshape", desc)
            f = call(g.par2fun, P.copy())
            if isinstance(f, BaseException) or not rel_eq(np.sort(np.ravel(f)), np.sort(P.ravel()), 0.0):
                ctx.fail(f"scales:{name}:par2fun:values", desc, "the same multiset of values", short(repr(f)), "par2fun of a reshape-type geometry alters values")
                continue
            if ns is not None and name.startswith("Image2D"):
                continue   # Image2D.fun2par on batches: listed finding, covered in part A
            back = call(g.fun2par, f)
            if isinstance(back, BaseException) or not rel_eq(back, P, 0.0):
                ctx.fail(f"scales:{name}:roundtrip", desc, short(P.tolist()), short(repr(back)), "fun2par(par2fun(p)) is not bit-identical to p")
    # non-finite parameters in one step: recorded, not demanded (parameters are real vectors; an implementation
    # that averages with a matrix product would legitimately turn 0*inf into nan)
    for proj in ("mean", "max", "min"):
        with quiet():
            g = StepExpansion(np.arange(12.0), n_steps=3, fun2par_projection=proj)
        for bad in (float("inf"), float("-inf"), float("nan")):
            for pos in range(3):
                p = np.array([1.0, -2.0, 3.0]); p[pos] = bad
                stats["nonfinite_probes"] += 1
                back = call(lambda: g.fun2par(g.par2fun(p.copy())))
                if not isinstance(back, BaseException) and rel_eq(back, p):
                    stats["nonfinite_isolated"] += 1
    ctx.extra_cov["scales_stats"] = stats


def scales_step_oracle(ctx, key, desc, g, proj, op, X, member):
    """implementation only.  Each entry of fun2par depends on the nodes of its own step only: the error allowed for
    step i is relative to the largest |f| inside step i; the round trip is entrywise relative to |p_i|."""
    s, n = g.par_dim, g.fun_dim
    if op == "par2fun":
        f = call(g.par2fun, X.copy())
        if isinstance(f, BaseException):
            ctx.fail(key, desc, "accepted", repr(f)); return
        f = np.asarray(f)
        # every node carries exactly the parameter of its step (membership by the documented rule; these grids are
        # chosen so that the float interval ends realise it — tied by part B)
        want = np.array([X[i] if i >= 0 else 0.0 * X[0] for i in member])
        if f.shape != want.shape or not rel_eq(f, want, 0.0):
            ctx.fail(key, desc, short(want.tolist()), short(f.tolist()), "a node does not carry exactly its step's parameter")
        back = call(g.fun2par, f)
        if isinstance(back, BaseException) or not rel_eq(back, X):
            ctx.fail(key.replace(":par2fun:", ":roundtrip:"), desc, short(X.tolist()), short(repr(back)),
                     "fun2par(par2fun(p)) != p entrywise (relative 1e-12): a step's value is polluted by other steps")
        if X.ndim == 2:
            for j in range(X.shape[1]):
                cj = call(g.par2fun, X[:, j].copy())
                if isinstance(cj, BaseException) or not rel_eq(np.asarray(cj), f[:, j], 0.0):
                    ctx.fail(key.replace(":par2fun:", ":par2fun:not-columnwise:"), {**desc, "column": j}, short(f[:, j].tolist()), short(repr(cj)), "batch is not column-wise")
        return
    p = call(g.fun2par, X.copy())
    if isinstance(p, BaseException):
        ctx.fail(key, desc, "accepted", repr(p)); return
    p = np.asarray(p, dtype=float)
    F2 = X.reshape(n, -1)
    ref = np.zeros((s, F2.shape[1])); scale = np.zeros((s, F2.shape[1]))
    for i in range(s):
        nodes = [k for k in range(n) if member[k] == i]
        for j in range(F2.shape[1]):
            vals = [float(F2[k, j]) for k in nodes]
            ref[i, j] = {"mean": lambda v: math.fsum(v) / len(v), "max": max, "min": min}[proj](vals)
            scale[i, j] = max(abs(v) for v in vals)
    ref, scale = ref.reshape(p.shape) if ref.size == p.size else ref, scale.reshape(p.shape) if scale.size == p.size else scale
    if ref.shape != p.shape or not rel_eq(p, ref, 1e-12, scale):
        ctx.fail(key, desc, short(ref.tolist()), short(p.tolist()),
                 f"fun2par entry is not the {proj} of its own step's nodes (error relative to the step's largest value > 1e-12)")
    if X.ndim == 2:
        for j in range(X.shape[1]):
            cj = call(g.fun2par, X[:, j].copy())
            if isinstance(cj, BaseException) or not rel_eq(np.asarray(cj), p[:, j], 1e-12, scale[:, j] if scale.shape == p.shape else None):
                ctx.fail(key.replace(":fun2par:", ":fun2par:not-columnwise:"), {**desc, "column": j}, short(p[:, j].tolist()), short(repr(cj)), "batch is not column-wise")


# ----------------------------------------------------------------------------- part O: KLExpansion object histories
def _eff_modes(nm, N):
    n = 0 if N is None else N
    return n if nm is None or nm > n else nm


def _grid_arg(rng, N):
    """the same node count through the different argument forms `_create_dimension` accepts"""
    if N is None:
        return None, "None"
    form = rng.randint(5)
    if form == 0:
        return int(N), "int"
    if form == 1:
        return (int(N),), "tuple1"
    if form == 2:
        return [float(v) for v in np.linspace(0, 1, N)] if N else [], "list"
    if form == 3:
        return np.linspace(-1, 2, N) if N else np.zeros(0), "linspace"
    return np.int64(N), "np.int64"


def _cmp_vec(model_tok, impl, tol):
    if model_tok in ("None", "raise", "ok"):
        return impl == model_tok
    if isinstance(impl, str):
        return False
    mv = [] if model_tok == "_" else [float(Fraction(t)) for t in model_tok.split(",")]
    return len(mv) == len(impl) and rel_eq(np.array(mv), np.array(impl), tol)


def part_klhist(ctx, cuqi, thorough):
    from cuqi.geometry import KLExpansion
    from scipy.fftpack import dst, idst
    rng = np.random.RandomState(ctx.seed + 1314)
    nh = 60 if not thorough else 300
    LMAX = 24
    lines, meta = [], []
    opstat, argforms, cache_events = {}, {}, {"regrid_same_m": 0, "regrid_new_m": 0, "to_none": 0, "from_none": 0}
    for h in range(nh):
        gam = [0, 1, 2, 3, 2.5][rng.randint(5)]
        tau = [1.0, 12.0, 0.5, 3.0][rng.randint(4)]
        nm = [None, None, 0, 1, 2, 3, 5, 20][rng.randint(8)]
        N0 = [None, 0, 1, 2, 3, 5, 8, 12][rng.randint(8)]
        law = 1.0 / np.float_power(np.arange(1, LMAX + 1), gam)
        g0, _ = _grid_arg(rng, N0)
        with quiet():
            o = KLExpansion(g0, decay_rate=gam, normalizer=tau, num_modes=nm)
        N, toks, impl, info, acts = N0, [], [], [], []
        seenN = [N0]
        for _ in range(rng.randint(3, 10)):
            m = _eff_modes(nm, N)
            r = rng.rand()
            if r < 0.28:
                N2 = [None, 0, 1, 2, 3, 4, 5, 8, 12, 16][rng.randint(10)]
                garg, form = _grid_arg(rng, N2)
                argforms[form] = argforms.get(form, 0) + 1
                m2 = _eff_modes(nm, N2)
                cache_events["regrid_same_m" if m2 == m else "regrid_new_m"] += 1
                cache_events["to_none"] += int(N2 is None and N is not None)
                cache_events["from_none"] += int(N is None and N2 is not None)
                res = call(lambda: setattr(o, "grid", garg))
                acts.append(lambda ob, garg=garg: setattr(ob, "grid", garg))
                impl.append("ok" if not isinstance(res, BaseException) else "raise")
                toks.append(f"g:{'-' if N2 is None else N2}")
                info.append(("g", N2))
                N = N2
                seenN.append(N2)
                kind = "g"
            elif r < 0.40:
                res = call(lambda: o.coefs)
                impl.append("raise" if isinstance(res, BaseException) else ("None" if res is None else list(np.diag(res))))
                acts.append(lambda ob: ob.coefs)
                toks.append("c"); info.append(("c",)); kind = "c"
            elif r < 0.52:
                res = call(lambda: o.coefs_inverse)
                impl.append("raise" if isinstance(res, BaseException) else ("None" if res is None else list(np.diag(res))))
                acts.append(lambda ob: ob.coefs_inverse)
                toks.append("ci"); info.append(("ci",)); kind = "ci"
            elif r < 0.60:
                res = call(lambda: (o.num_modes, o.par_shape, o.par_dim, o.fun_shape, o.fun_dim))
                impl.append(res if isinstance(res, BaseException) else res)
                acts.append(lambda ob: (ob.num_modes, ob.par_shape, ob.fun_shape))
                toks.append("s"); info.append(("s",)); kind = "s"
            elif r < 0.82:
                # parameters: right shape for the current m, or the m of an earlier grid (stale), single / batch
                mm = m if rng.rand() < 0.75 else _eff_modes(nm, seenN[rng.randint(len(seenN))])
                ns = [None, 1, 2, 3][rng.randint(4)]
                P = (rng.randint(-9, 10, size=(mm,) if ns is None else (mm, ns))).astype(float)
                res = call(o.par2fun, P.copy())
                acts.append(lambda ob, P=P: ob.par2fun(P.copy()))
                impl.append(res)
                toks.append("p:" + enc(P).replace(" ", ":")); info.append(("p", P)); kind = "p" if mm == m else "p-stale"
            else:
                Nf = (N or 0) if rng.rand() < 0.75 else ((seenN[rng.randint(len(seenN))]) or 0)
                ns = [None, 1, 2, 3][rng.randint(4)]
                F = (rng.randint(-9, 10, size=(Nf,) if ns is None else (Nf, ns))).astype(float)
                res = call(o.fun2par, F.copy())
                acts.append(lambda ob, F=F: ob.fun2par(F.copy()))
                impl.append(res)
                D = dst(F.reshape(Nf, -1).T * 2).T if Nf > 0 else np.zeros((0, F.shape[1] if F.ndim == 2 else 1))
                fsh = ",".join(str(d) for d in F.shape)
                toks.append(f"f:{fsh}:" + enc(D).replace(" ", ":")); info.append(("f", F)); kind = "f" if Nf == (N or 0) and N is not None else "f-stale"
            opstat[kind] = opstat.get(kind, 0) + 1
        lines.append(f"klhist {qv(law)} {q(tau)} {'-' if nm is None else nm} {'-' if N0 is None else N0} {';'.join(toks)}")
        meta.append((gam, tau, nm, N0, toks, impl, info, (g0, acts)))
    outs = yield lines
    for (gam, tau, nm, N0, toks, impl, info, (g0, acts)), out in zip(meta, outs):
        desc = {"decay_rate": gam, "normalizer": tau, "num_modes": nm, "grid0": N0, "ops": [t if len(t) < 40 else t[:40] + "..." for t in toks]}
        ctx.case("kl-history", desc)
        mouts = out.split(" # ")
        if len(mouts) != len(toks):
            ctx.disagree("KLExpansion:history:protocol", desc, out[:100], "", "model refused the history"); continue
        N = N0
        for k, (tok, mo, im, inf) in enumerate(zip(toks, mouts, impl, info)):
            m = _eff_modes(nm, N if inf[0] != "g" else inf[1])
            if inf[0] == "g":
                N = inf[1]
            unit = (m == 1 or N == 1)
            key = ("KLExpansion~unit" if unit else "KLExpansion") + f":history:{inf[0]}"
            d = {**desc, "step": k}
            ok = True
            if inf[0] in ("g", "c", "ci"):
                ok = _cmp_vec(mo, im, 1e-13)
            elif inf[0] == "s":
                want = f"m={m} fun={'None' if N is None else N}"
                got = im if isinstance(im, BaseException) else f"m={im[0]} fun={'None' if im[3] is None else im[3][0]}"
                ok = (mo == want == got) and not isinstance(im, BaseException) and im[1] == (m,) and im[2] == m and \
                    (im[4] == N or (N is None and im[4] is None))
            elif inf[0] == "p":
                pre = parse_arr(mo)
                if isinstance(pre, str) or isinstance(im, BaseException):
                    ok = isinstance(pre, str) and isinstance(im, BaseException)
                else:
                    modes = np.array([float(v) for v in pre[1]]).reshape(pre[0])
                    fm = (idst(modes.T).T / 2).squeeze()
                    ok = np.shape(im) == fm.shape and np.allclose(im, fm, rtol=1e-11, atol=1e-11)
            else:
                post = parse_arr(mo)
                if isinstance(post, str) or isinstance(im, BaseException):
                    ok = isinstance(post, str) and isinstance(im, BaseException)
                else:
                    pm_ = np.array([float(v) for v in post[1]]).reshape(post[0])
                    ok = np.shape(im) == pm_.shape and np.allclose(im, pm_, rtol=1e-11, atol=1e-11)
            if not ok:
                ctx.disagree(key, d, short(mo), short(repr(im)), f"op {tok[:30]} after this history differs from the object model")
                if inf[0] in ("c", "ci", "s", "g"):
                    # replay the history up to here on a new object and look for a failing input of the property at this point
                    ob = call(lambda: KLExpansion(g0, decay_rate=gam, normalizer=tau, num_modes=nm))
                    for a in acts[:k + 1]:
                        call(a, ob)
                    fresh = call(lambda: KLExpansion(N, decay_rate=gam, normalizer=tau, num_modes=nm))
                    if m >= 1 and not isinstance(fresh, BaseException) and not isinstance(ob, BaseException):
                        p = np.arange(1.0, m + 1)
                        fv = call(ob.par2fun, p.copy())
                        back = fv if isinstance(fv, BaseException) else call(ob.fun2par, fv)
                        sh = call(lambda: (ob.par_shape, ob.fun_shape))
                        if isinstance(back, BaseException) or np.size(back) != m or not np.allclose(np.ravel(back), p, rtol=1e-9, atol=1e-9):
                            ctx.fail(key, {**d, "p": p.tolist()}, p.tolist(), short(repr(back)), "fun2par(par2fun(p)) != p at this point of the history")
                        elif sh != (fresh.par_shape, fresh.fun_shape):
                            ctx.fail(key, d, str((fresh.par_shape, fresh.fun_shape)), str(sh), "reported shapes at this point of the history are not those of a fresh geometry")
                        else:
                            fr = call(fresh.par2fun, p.copy())
                            if isinstance(fr, BaseException) or np.shape(fr) != np.shape(fv) or not np.allclose(fr, fv, rtol=1e-11, atol=1e-11):
                                ctx.fail(key, {**d, "p": p.tolist()}, short(repr(fr)), short(repr(fv)), "par2fun at this point of the history differs from a fresh geometry")
            # oracle: the used / re-gridded object against a FRESH geometry with the current attributes, and the round trip
            if inf[0] in ("p", "f"):
                fresh = call(lambda: KLExpansion(N, decay_rate=gam, normalizer=tau, num_modes=nm))
                if isinstance(fresh, BaseException):
                    continue
                ref = call(fresh.par2fun if inf[0] == "p" else fresh.fun2par, inf[1].copy())
                same_ = (isinstance(ref, BaseException) and isinstance(im, BaseException)) or \
                    (not isinstance(ref, BaseException) and not isinstance(im, BaseException) and np.shape(ref) == np.shape(im)
                     and np.allclose(ref, im, rtol=1e-11, atol=1e-11))
                if not same_:
                    ctx.fail(key, {**d, "input": short(inf[1].tolist())}, short(repr(ref)), short(repr(im)),
                             "after this history the map differs from a fresh KLExpansion with the same attributes")
    ctx.extra_cov["kl_history_stats"] = {"histories": nh, "ops": opstat, "grid_argument_forms": argforms, "cache_events": cache_events}


# ----------------------------------------------------------------------------- part P: StepExpansion object histories
def part_stephist(ctx, cuqi, thorough):
    from cuqi.geometry import StepExpansion
    rng = np.random.RandomState(ctx.seed + 1315)
    nh = 70 if not thorough else 350
    lines, meta = [], []
    opstat, regrid_kinds, ctor, projstat = {}, {}, {"accepted": 0, "refused": 0}, {}
    PROJ = ["mean", "max", "min", "Mean", "MAX", "mIn", "median", "avg"]
    for h in range(nh):
        x0, hh = [0.0, -2.0, 1.0, 3.0][rng.randint(4)], [1.0, 0.5, 0.25, 2.0][rng.randint(4)]
        n = int(rng.randint(2, 13))
        s = int(rng.randint(1, n + 1)) if rng.rand() < 0.85 else [0, n + 1, n + 3][rng.randint(3)]
        pr = PROJ[h % len(PROJ)]
        projstat[pr] = projstat.get(pr, 0) + 1
        grid0 = x0 + hh * np.arange(n)
        if rng.rand() < 0.08:
            grid0 = grid0.copy(); grid0[-1] += 0.5          # not regular: refused
        if rng.rand() < 0.04:
            grid0 = grid0[:1]                                # one node: IndexError in the regularity test
        o = call(lambda: StepExpansion(grid0.copy(), n_steps=s, fun2par_projection=pr))
        toks, impl, info = [], [], []
        grid, regridded = grid0, False
        if not isinstance(o, BaseException):
            ctor["accepted"] += 1
            nops = int(rng.randint(3, 9))
            for it in range(nops + 2):
                force = it >= nops                       # every history ends with a well-shaped par2fun and fun2par
                r = rng.rand() if not force else (0.5 if it == nops else 0.9)
                ncur = len(grid)
                if r < 0.25:
                    kind = ["same-partition", "longer", "shorter", "irregular", "same", "empty"][rng.choice(6, p=[0.3, 0.25, 0.2, 0.1, 0.1, 0.05])]
                    if kind == "same-partition":
                        g2 = float(rng.randint(-3, 4)) + [0.5, 2.0, 4.0][rng.randint(3)] * np.arange(len(grid0))
                    elif kind == "longer":
                        g2 = x0 + hh * np.arange(ncur + int(rng.randint(1, 5)))
                    elif kind == "shorter":
                        g2 = x0 + hh * np.arange(max(0, ncur - int(rng.randint(1, 4))))
                    elif kind == "irregular":
                        g2 = np.cumsum(rng.randint(1, 4, size=max(ncur, 2))).astype(float)
                    elif kind == "same":
                        g2 = grid.copy()
                    else:
                        g2 = np.zeros(0)
                    regrid_kinds[kind] = regrid_kinds.get(kind, 0) + 1
                    res = call(lambda: setattr(o, "grid", g2.copy()))
                    impl.append("ok" if not isinstance(res, BaseException) else "raise")
                    toks.append("g:" + qv(g2)); info.append(("g", g2, kind)); grid, regridded = g2, True
                    k = "g"
                elif r < 0.35:
                    res = call(lambda: (o.par_shape, o.par_dim, o.fun_shape, o.fun_dim))
                    impl.append(res); toks.append("s"); info.append(("s",)); k = "s"
                elif r < 0.68:
                    ss = s if (force or rng.rand() < 0.85) else s + 1
                    ns = [None, 1, 2, 3][rng.randint(4)]
                    P = (rng.randint(-9, 10, size=(ss,) if ns is None else (ss, ns))).astype(float)
                    impl.append(call(o.par2fun, P.copy())); toks.append("p:" + enc(P).replace(" ", ":")); info.append(("p", P)); k = "p"
                else:
                    nf = ncur if (force or rng.rand() < 0.8) else len(grid0)
                    ns = [None, 1, 2, 3][rng.randint(4)]
                    F = (rng.randint(-9, 10, size=(nf,) if ns is None else (nf, ns))).astype(float)
                    impl.append(call(o.fun2par, F.copy())); toks.append("f:" + enc(F).replace(" ", ":")); info.append(("f", F)); k = "f"
                opstat[k] = opstat.get(k, 0) + 1
        else:
            ctor["refused"] += 1
            toks = ["s"]
        bounds = step_bounds_float(grid0, s) if s > 0 and len(grid0) > 0 else None
        lines.append(f"stephist {qv(grid0)} {'-' if bounds is None else qv(bounds)} {s} {pr} {';'.join(toks)}")
        meta.append((grid0, s, pr, o, toks, impl, info))
    outs = yield lines
    for (grid0, s, pr, o, toks, impl, info), out in zip(meta, outs):
        desc = {"grid0": short(grid0.tolist(), 80), "n_steps": s, "projection": pr, "ops": [t if len(t) < 40 else t[:40] + "..." for t in toks]}
        ctx.case("step-history", desc)
        valid_proj = pr.lower() in ("mean", "max", "min")
        if isinstance(o, BaseException) or out == "err":
            # WHEN an unknown projection string is rejected (constructor or first fun2par) is not part of the property
            if not (isinstance(o, BaseException) and out == "err") and not (isinstance(o, BaseException) and not valid_proj):
                ctx.disagree("StepExpansion:history:constructor", desc, out[:60], repr(o)[:80], "constructor accepts/refuses differently from the model")
                if not isinstance(o, BaseException) and s <= len(grid0):
                    # accepted although the model refuses: the property oracle on the object
                    p = np.arange(1.0, s + 1)
                    back = call(lambda: o.fun2par(o.par2fun(p)))
                    if isinstance(back, BaseException) or not rel_eq(np.ravel(back), p, 1e-9):
                        ctx.fail("StepExpansion:history:constructor", desc, p.tolist(), short(repr(back)), "round trip fails on an accepted geometry")
            continue
        mouts = out.split(" # ")
        if len(mouts) != len(toks):
            ctx.disagree("StepExpansion:history:protocol", desc, out[:100], "", "model refused the history"); continue
        grid, regridded = grid0, False
        for k, (tok, mo, im, inf) in enumerate(zip(toks, mouts, impl, info)):
            d = {**desc, "step": k}
            if inf[0] == "g":
                grid, regridded = inf[1], True
                ok = (mo == im)
            elif inf[0] == "s":
                ok = not isinstance(im, BaseException) and mo == f"par={s if s else '_'} fun={len(grid) if len(grid) else '_'}".replace("par=_", "par=0").replace("fun=_", "fun=0") \
                    and im[0] == (s,) and im[1] == s and im[2] == (len(grid),) and im[3] == len(grid)
            else:
                m, ci = parse_arr(mo), canon(im)
                if inf[0] == "f" and (not valid_proj or s == 0) and ci == "raise":
                    ok = True      # unknown projection / no steps: a refusal is accepted whatever the model's branch says
                elif isinstance(m, str) or isinstance(ci, str):
                    ok = (m == ci)
                else:
                    ok = m[0] == ci[0] and rel_eq(np.array([float(v) for v in m[1]]), np.array(ci[1]), 1e-12)
            unit = "~unit" if s == 1 else ""
            key = f"StepExpansion{unit}:history:{inf[0]}"
            if not ok:
                ctx.disagree(key, d, short(mo), short(repr(im)), f"op {tok[:30]} after this history differs from the object model")
            if inf[0] in ("p", "f") and s >= 1:
                fresh = call(lambda: StepExpansion(np.asarray(grid).copy(), n_steps=s, fun2par_projection=pr))
                if isinstance(fresh, BaseException):
                    continue
                ref = call(fresh.par2fun if inf[0] == "p" else fresh.fun2par, inf[1].copy())
                a, b = canon(ref), canon(im)
                same_ = (a == b) if (isinstance(a, str) or isinstance(b, str)) else (a[0] == b[0] and rel_eq(np.array(a[1]), np.array(b[1]), 1e-12))
                if not same_:
                    fkey = f"StepExpansion:reassign:grid:history:{'par2fun' if inf[0] == 'p' else 'fun2par'}" if regridded else key
                    ctx.fail(fkey, {**d, "input": short(inf[1].tolist()), "current_grid": short(np.asarray(grid).tolist(), 80)}, short(repr(ref)), short(repr(im)),
                             "after this history the map differs from a fresh StepExpansion on the current grid")
                elif not ok and inf[0] == "p" and not isinstance(im, BaseException):
                    # model and implementation differ although a fresh object agrees: look for a failing input on the object
                    back = call(o.fun2par, im)
                    if isinstance(back, BaseException) or not rel_eq(np.ravel(back), inf[1].ravel(), 1e-9):
                        ctx.fail(key, d, short(inf[1].tolist()), short(repr(back)), "fun2par(par2fun(p)) != p")
    ctx.extra_cov["step_history_stats"] = {"histories": nh, "ops": opstat, "regrid_kinds": regrid_kinds, "constructor": ctor, "projection_strings": projstat}


# ----------------------------------------------------------------------------- entry: one driver call for the three streams
def generators(ctx, cuqi, thorough):
    """the four streams of this module as generators (driven by `run` of c13.py together with the other streams)"""
    return [part_scales(ctx, cuqi, thorough), part_klhist(ctx, cuqi, thorough), part_stephist(ctx, cuqi, thorough),
            part_ctor(ctx, cuqi, thorough)]


def run_all(ctx, cuqi, thorough):
    """the three parts are generators: first they yield their model lines, then they are sent the model outputs
    (one `drive` call for all of them: every call waits for the shared build lock)"""
    gens = [part_scales(ctx, cuqi, thorough), part_klhist(ctx, cuqi, thorough), part_stephist(ctx, cuqi, thorough),
            part_ctor(ctx, cuqi, thorough)]
    blocks = [next(g) for g in gens]
    outs = ctx.lean.drive([l for b in blocks for l in b])
    pos = 0
    for g, b in zip(gens, blocks):
        try:
            g.send(outs[pos:pos + len(b)])
        except StopIteration:
            pass
        pos += len(b)


# ----------------------------------------------------------------------------- part Q: constructor / setter glue
def _dim_args():
    """(token, python value) pairs for `_create_dimension`"""
    A = [("N", None)]
    for n in (-2, 0, 1, 2, 3, 5, 9):
        A.append((f"i{n}", n))
    A += [("i4", np.int64(4)), ("i7", np.int32(7)), ("ti3", (3,)), ("ti0", (0,)), ("tN", (None,)), ("tti3", ((3,),)), ("T0", ()), ("T2", (2, 3)), ("T3", (1, 2, 3))]
    for v in ([0.0, 0.5, 1.0], [2.0], [], [-1.0, 0.25, 3.0, 8.0]):
        A.append(("l" + qv(v), list(v)))
        A.append(("l" + qv(v), np.array(v, dtype=float)))
    A += [("l1,2,3", [1, 2, 3]), ("l1,2,3", np.array([1, 2, 3])), ("tl0,1/2,1", ([0.0, 0.5, 1.0],)), ("tl5,6", (np.array([5.0, 6.0]),))]
    A += [("d0", np.array(2.0)), ("d2", np.zeros((2, 2))), ("d2", [[1.0, 2.0], [3.0, 4.0]]), ("td2", (np.zeros((2, 2)),)), ("d3", np.zeros((1, 2, 3)))]
    A += [("o", 2.0), ("o", "x"), ("o", np.float64(3.0)), ("to", (2.5,)), ("o", {"a": 1})]
    A += [("i1", True), ("i0", False), ("o", np.True_), ("ti1", (True,))]      # a Python bool is an int, numpy's is not
    return A


def _shp(o, names=("par_shape", "par_dim", "fun_shape", "fun_dim")):
    out = []
    for nm in names:
        r = call(lambda: getattr(o, nm))
        if isinstance(r, BaseException):
            return None
        out.append("None" if r is None else ((",".join(str(int(d)) for d in r) if len(r) else "_") if isinstance(r, tuple) else str(int(r))))
    return "par={} pardim={} fun={} fundim={}".format(*out)


def _gridstr(g):
    return "None" if g is None else qv(np.asarray(g, dtype=float))


def part_ctor(ctx, cuqi, thorough):
    from cuqi.geometry import Continuous1D, Continuous2D, Image2D, Discrete, _DefaultGeometry1D, _DefaultGeometry2D
    from cuqi.samples import Samples
    from cuqi.array import CUQIarray
    rng = np.random.RandomState(ctx.seed + 1316)
    A = _dim_args()
    lines, meta = [], []
    stat = {"ctor1d": 0, "ctor1d_refused": 0, "ctor2d": 0, "ctor2d_refused": 0, "ctor2d_shapes_raise": 0, "image": 0, "image_non2d": 0,
            "discrete": 0, "default": 0}
    # --- 1-D
    for tok, val in A:
        for how in ("Continuous1D", "Default1D", "setter"):
            lines.append(f"ctor1d {tok}")
            meta.append(("1d", tok, val, how))
    # --- 2-D: pairs, wrong lengths, no length
    sub = [A[i] for i in (0, 2, 4, 5, 8, 10, 12, 15, 17, 19, 27, 31, 33, 36)]
    pairs = [(a, b) for a in sub for b in sub] if thorough else [(sub[rng.randint(len(sub))], sub[rng.randint(len(sub))]) for _ in range(60)] + \
        [(sub[3], sub[4]), (sub[4], sub[3]), (sub[0], sub[0]), (sub[3], sub[0])]
    for (ta, va), (tb, vb) in pairs:
        for cont in (tuple, list):
            lines.append(f"ctor2d p:{ta}:{tb}")
            meta.append(("2d", f"p:{ta}:{tb}", cont([va, vb]), "ctor"))
    for tok, val in [("N", None), ("w", (2,)), ("w", (2, 3, 4)), ("w", []), ("n", 5), ("w", np.zeros(3))]:
        lines.append(f"ctor2d {tok}")
        meta.append(("2d", tok, val, "ctor"))
    # --- Image2D
    shapes = [(2, 3), (3, 2), (1, 4), (4, 1), (1, 1), (2, 3, 4), (2, 3, 1), (1, 2, 3), (2, 1, 1), (6,), (1,), (), (0, 3), (2, 2, 2, 2)]
    for sh in shapes:
        for order in (("C", "F", "X", "A", "K", "a", "c", "f", "k", "CC") if sh in ((2, 3), (3, 2)) else ("C", "F", "X")):
            for vis in (False, True):
                d = int(np.prod(sh)) if len(sh) else 1
                shs = ",".join(str(k) for k in sh) if len(sh) else "_"
                lines.append(f"ctorimg {shs} {order} {int(vis)}")
                meta.append(("img", sh, order, vis, None, None))
                for X in (ints_(rng, (d,)), ints_(rng, (d, 2)), ints_(rng, (d, 1)), ints_(rng, (d + 1,))):
                    lines.append(f"ctorimg {shs} {order} {int(vis)} par2fun {enc(X)}")
                    meta.append(("img", sh, order, vis, "par2fun", X))
                for X in (ints_(rng, sh if len(sh) else (1,)), ints_(rng, (tuple(sh) if len(sh) else (1,)) + (2,))):
                    lines.append(f"ctorimg {shs} {order} {int(vis)} fun2par {enc(X)}")
                    meta.append(("img", sh, order, vis, "fun2par", X))
    # --- Discrete
    for tok, val in [(f"i{n}", n) for n in (-2, 0, 1, 2, 3, 5)] + [("i4", np.int64(4)), ("s0", []), ("s1", ["n0"]), ("s3", ["n0", "n1", "n2"]),
                                                                  ("x", ["a", 1]), ("x", [1.0]), ("o", 2.0), ("o", "ab"), ("o", None), ("o", ("a", "b")),
                                                                  ("i1", True), ("i0", False)]:
        lines.append(f"ctordisc {tok}")
        meta.append(("disc", tok, val))
    # --- default geometries
    for sh in [(5,), (3, 5), (2, 3, 5), (0, 5), (1, 1), (4, 1), (1, 7)]:
        lines.append("defgeom S " + ",".join(str(k) for k in sh)); meta.append(("def", "S", sh))
    for sh in [(), (4,), (0,), (1,)]:
        lines.append("defgeom A " + (",".join(str(k) for k in sh) if sh else "_")); meta.append(("def", "A", sh))
    # --- variables of geometries whose variables were never set
    for nm, mk in [("Continuous1D(None)", lambda: Continuous1D(None)), ("Continuous1D(0)", lambda: Continuous1D(0)), ("Continuous1D(1)", lambda: Continuous1D(1)),
                   ("Continuous1D(3)", lambda: Continuous1D(3)), ("Continuous2D((2,2))", lambda: Continuous2D((2, 2))), ("Image2D((2,1))", lambda: Image2D((2, 1))),
                   ("Default1D(5)", lambda: _DefaultGeometry1D(5)), ("Default2D((2,3))", lambda: _DefaultGeometry2D((2, 3)))]:
        with quiet():
            o = mk()
        pd = call(lambda: o.par_dim)
        lines.append(f"ctorvars {'None' if pd is None else int(pd)}"); meta.append(("vars", nm, o))
    # --- n_steps = 0 through the `map` op (now run on the object model)
    from cuqi.geometry import StepExpansion
    for op, X in [("fun2par", ints_(rng, (4,))), ("fun2par", ints_(rng, (4, 2))), ("fun2par", ints_(rng, (5,))), ("par2fun", np.zeros(0)), ("par2fun", ints_(rng, (1,)))]:
        lines.append(f"map step:0,1,2,3:-:0:mean {op} {enc(X)}"); meta.append(("s0", op, X))
    outs = yield lines

    for mt, out in zip(meta, outs):
        if mt[0] == "vars":
            _, nm, o = mt
            ctx.case("ctor-variables", {"geometry": nm})
            v = call(lambda: o.variables)
            impl = "err" if isinstance(v, BaseException) else (",".join(v) if len(v) else "_")
            if impl != out:
                ctx.disagree("ctor:variables:" + nm.split("(")[0], {"geometry": nm}, out[:80], impl[:80], "generated variable names differ from the model")
                pd = call(lambda: o.par_dim)
                if not isinstance(v, BaseException) and pd is not None and len(v) != pd:
                    ctx.fail("ctor:variables:" + nm.split("(")[0], {"geometry": nm}, f"{pd} names", impl[:80], "number of variables is not par_dim")
            continue
        if mt[0] == "s0":
            _, op, X = mt
            ctx.case("step-nsteps0", {"op": op, "input_shape": list(X.shape)})
            with quiet():
                g0 = StepExpansion(np.arange(4.0), n_steps=0)
            m, im = parse_arr(out), canon(call(getattr(g0, op), X.copy()))
            if im != "raise" and m != im and not (not isinstance(m, str) and not isinstance(im, str) and m[0] == im[0] and list(m[1]) == list(im[1])):
                ctx.disagree("StepExpansion:nsteps0:" + op, {"op": op, "input_shape": list(X.shape)}, short(out), short(im), "n_steps = 0 branch differs from the model")
            continue
        if mt[0] == "1d":
            _, tok, val, how = mt
            stat["ctor1d"] += 1
            desc = {"class": how, "grid_arg": short(repr(val), 60)}
            ctx.case("ctor-1d", desc)
            if how == "setter":
                with quiet():
                    o = Continuous1D(3)
                r = call(lambda: setattr(o, "grid", val))
                o = r if isinstance(r, BaseException) else o
            else:
                o = call(lambda: (Continuous1D if how == "Continuous1D" else _DefaultGeometry1D)(val))
            impl = "err" if isinstance(o, BaseException) else f"grid={_gridstr(o.grid)} {_shp(o)}"
            stat["ctor1d_refused"] += int(impl == "err")
            key = f"ctor:{how}:{tok[:1]}"
            if impl != out:
                ctx.disagree(key, desc, out[:100], impl[:100], "constructor / reported shapes differ from the model")
            if impl != "err" and o.grid is not None:
                n = len(o.grid)
                p = np.arange(1.0, n + 1)
                f = call(o.par2fun, p.copy()); b = f if isinstance(f, BaseException) else call(o.fun2par, f)
                if isinstance(b, BaseException) or np.shape(f) != tuple(o.fun_shape) or np.shape(b) != tuple(o.par_shape) or not np.array_equal(b, p) \
                        or o.par_dim != n or o.fun_dim != n:
                    ctx.fail(key, desc, f"shapes ({n},), identity maps", short(repr((f, b))), "reported shapes / maps of the constructed 1-D geometry")
        elif mt[0] == "2d":
            _, tok, val, _ = mt
            stat["ctor2d"] += 1
            desc = {"grid_arg": short(repr(val), 80)}
            ctx.case("ctor-2d", desc)
            o = call(lambda: Continuous2D(val))
            if isinstance(o, BaseException):
                impl = "err"; stat["ctor2d_refused"] += 1
            elif o.grid is None:
                impl = f"grid=None {_shp(o)}"
            else:
                sh = _shp(o)
                stat["ctor2d_shapes_raise"] += int(sh is None)
                impl = f"grid={_gridstr(o.grid[0])};{_gridstr(o.grid[1])} {sh if sh is not None else 'shapes-err'}"
            key = "ctor:Continuous2D:" + tok[:1]
            if impl != out:
                ctx.disagree(key, desc, out[:120], impl[:120], "grid setter / reported shapes differ from the model")
            if impl != "err" and o.grid is not None and o.grid[0] is not None and o.grid[1] is not None:
                a, b = len(o.grid[0]), len(o.grid[1])
                bad = o.par_shape != (a * b,) or o.par_dim != a * b or o.fun_shape != (a, b) or o.fun_dim != a * b
                if a * b > 0:
                    p = np.arange(1.0, a * b + 1)
                    f = call(o.par2fun, p.copy()); bk = f if isinstance(f, BaseException) else call(o.fun2par, f)
                    bad = bad or isinstance(bk, BaseException) or not np.array_equal(np.ravel(bk), p) or (a != 1 and b != 1 and np.shape(f) != (a, b))
                if bad:
                    ctx.fail(key, desc, f"par ({a * b},) fun ({a},{b}), round trip", "differs", "shapes / round trip of the constructed Continuous2D")
        elif mt[0] == "img":
            _, sh, order, vis, op, X = mt
            stat["image"] += 1; stat["image_non2d"] += int(len(sh) != 2)
            desc = {"im_shape": list(sh), "order": order, "visual_only": vis, "op": op, "input_shape": None if X is None else list(X.shape)}
            ctx.case("ctor-image", desc)
            o = call(lambda: Image2D(sh, order=order, visual_only=vis))
            strict = len(sh) == 2 and order in ("C", "F")      # elsewhere WHEN/whether misuse is refused is not the property's business
            key = f"ctor:Image2D:{'2d' if len(sh) == 2 else 'non2d'}:{order}:{op or 'shapes'}"
            if isinstance(o, BaseException):
                if out != "err" and strict:
                    ctx.disagree(key, desc, out[:80], repr(o)[:80], "constructor refuses")
                    ctx.fail(key, desc, "Image2D constructed", repr(o)[:80], "a 2-axis image geometry cannot be constructed")
                continue
            if op is None:
                impl = _shp(o)
                if impl != out and (strict or impl is not None):
                    ctx.disagree(key, desc, out[:100], str(impl)[:100], "reported shapes differ from the model")
                    d = int(np.prod(sh))
                    if o.par_shape != (d,) or o.par_dim != d or o.fun_dim != d:
                        ctx.fail(key, desc, f"par ({d},) dims {d}", str(impl), "par_shape / par_dim / fun_dim are not the product of im_shape")
                continue
            y = call(getattr(o, op), X.copy())
            m, im = parse_arr(out), canon(y)
            if im == "raise" and not strict:
                continue
            same_ = (m == im) if (isinstance(m, str) or isinstance(im, str)) else (m[0] == im[0] and all(Fraction(b) == a for a, b in zip(m[1], im[1])))
            if not same_:
                ctx.disagree(key, desc, short(out), short(im), "map of the constructed image geometry differs from the model")
                if strict and not vis and X.shape[0] == int(np.prod(sh)) and op == "par2fun" and X.ndim == 1:
                    bk = call(o.fun2par, y) if not isinstance(y, BaseException) else y
                    if isinstance(bk, BaseException) or not np.array_equal(np.ravel(bk), X):
                        ctx.fail(key, {**desc, "p": X.tolist()}, X.tolist(), short(repr(bk)), "fun2par(par2fun(p)) != p")
        elif mt[0] == "disc":
            _, tok, val = mt
            stat["discrete"] += 1
            desc = {"variables": short(repr(val), 60)}
            ctx.case("ctor-discrete", desc)
            o = call(lambda: Discrete(val))
            impl = "err" if isinstance(o, BaseException) else "vars={} {}".format(",".join(o.variables) if len(o.variables) else "_", _shp(o))
            key = "ctor:Discrete:" + tok[:1]
            if impl != out:
                ctx.disagree(key, desc, out[:100], impl[:100], "variables / reported shapes differ from the model")
            if impl != "err":
                n = len(o.variables)
                p = np.arange(1.0, n + 1)
                if o.par_shape != (n,) or o.fun_shape != (n,) or o.par_dim != n or o.fun_dim != n or not np.array_equal(o.fun2par(o.par2fun(p)), p):
                    ctx.fail(key, desc, f"({n},)", str(_shp(o)), "shapes / identity maps of Discrete")
        else:
            _, k, sh = mt
            stat["default"] += 1
            desc = {"container": "Samples" if k == "S" else "CUQIarray", "array_shape": list(sh)}
            ctx.case("ctor-default-geometry", desc)
            g = call(lambda: Samples(np.zeros(sh)).geometry if k == "S" else CUQIarray(np.zeros(sh)).geometry)
            impl = "err" if isinstance(g, BaseException) else f"grid={_gridstr(g.grid)} {_shp(g)}"
            key = f"ctor:default:{'Samples' if k == 'S' else 'CUQIarray'}:{len(sh)}d"
            if impl != out:
                ctx.disagree(key, desc, out[:100], impl[:100], "default geometry differs from the model")
                want = int(np.prod(sh[:-1])) if k == "S" else (sh[0] if sh else None)
                if len(sh) >= (2 if k == "S" else 1) and (isinstance(g, BaseException) or g.par_dim != want):
                    ctx.fail(key, desc, f"default geometry of dimension {want}", impl[:80], "default geometry does not match the array")
    ctx.extra_cov["ctor_stats"] = stat
    ctx.extra_cov["ext_relative_comparison_margin"] = dict(MARGIN)    # last stream: covers scales / histories / ctor


def ints_(rng, shape, lo=-9, hi=9):
    return rng.randint(lo, hi + 1, size=shape).astype(float)
