"""C06, session 3 — tie of the sampling loops around the RTO step to lean/CuqiVerif/Model/C06_loop.lean.

legacy : LinearRTO(target, x0=…).sample(N, Nb)                      vs  `legacySample`  (column 0 = x0, N+Nb−1 steps, burn-in dropped)
exp    : LinearRTO(target, initial_point=…).warmup(Nb).sample(Ns)   vs  `expSample`     (every step of either phase is stored)
The normal draws are scripted (one vector per step, in the order consumed); the model runs EXACT CGLS (tol = 0) on the same
problem (leaf factors of the implementation), so every stored state must be m + B e_t of ITS OWN draw, whatever the history.

hard   : where the layout agrees (number of returned samples and of draws consumed), every returned column vs the model (2e-8);
oracle : (implementation only) every column that is the result of a step equals the single step, with the same draw, of a FRESH
         sampler started at 0 — a stored sample is a function of its own draw alone;
soft   : the layout itself (legacy returns x0 as column 0 when Nb = 0; N + Nb = 0 raises) — noted and histogrammed only.
"""
import numpy as np
from harness.core import quiet, qv, pm
from harness.props import c06 as base

TOL = 2e-8


def run_loop(ctx, cuqi, r, thorough):
    n_cases = 14 if not thorough else 120
    # the first entry of each list is a LONG run (17 / 16 steps): defects that grow with the number of stored samples
    LEG = [(14, 4), (3, 0), (1, 0), (2, 2), (1, 3), (4, 1), (0, 1), (2, 0), (0, 0)]
    EXP = [(4, 12), (0, 3), (2, 2), (3, 0), (1, 1), (0, 0), (1, 3)]
    cnt = {"legacy": 0, "exp": 0}
    recs, lines = [], []
    t = 0
    guard = 0
    while len(recs) < n_cases and guard < 50 * n_cases:
        guard += 1
        cfg = base.gen_config(r, False)
        if cfg["n"] > 5 or base.improper(cfg) or sum(l["m"] for l in cfg["liks"]) > 10:
            continue
        try:
            gP = base.gmrf_precision(cuqi, cfg["prior"], cfg["n"]) if cfg["prior"]["type"] == "gmrf" else None
            H = np.linalg.inv(base.doc_moments(cfg, gP)[1])
            if not np.all(np.isfinite(H)) or np.linalg.cond(H) > 1e4:
                continue
        except np.linalg.LinAlgError:
            continue
        n = cfg["n"]
        iface = cfg["iface"]
        lst = LEG if iface == "legacy" else EXP
        a, b = lst[cnt[iface] % len(lst)]
        cnt[iface] += 1
        t += 1
        x0 = None if r.rand() < 0.25 else r.randint(-4, 5, size=n).astype(float)
        rec = {"cfg": cfg, "a": a, "b": b, "x0": x0, "gP": gP}
        key = f"loop:{iface}:{'N%d:Nb%d' % (a, b) if iface == 'legacy' else 'Nb%d:Ns%d' % (a, b)}:{cfg['target']}:{cfg['backing']}"
        rec["key"] = key
        try:
            with quiet():
                target, _, _ = base.build_target(cuqi, cfg)
                maxit = base.maxit_for(n)
                if iface == "legacy":
                    import cuqi.sampler as ls
                    s = ls.LinearRTO(target, x0=None if x0 is None else x0.copy(), maxit=maxit, tol=1e-13)
                else:
                    import cuqi.experimental.mcmc as em
                    s = em.LinearRTO(target, initial_point=None if x0 is None else x0.copy(), maxit=maxit, tol=1e-13)
                    s.initialize()
                Nrows = len(s.b_tild)
                need = max(a + b - 1, 0) if iface == "legacy" else a + b
                draws = [r.randint(-2, 3, size=Nrows).astype(float) for _ in range(need + 2)]
                rec["draws"] = draws
                rec["leaf"] = (lambda rn: (rn[0], rn[1]))(
                    ([base.dense(l.distribution.sqrtprec) for l in s.likelihoods], base.dense(s.prior.sqrtprec)))
                with base.patched_randn(list(draws)) as sr:
                    try:
                        if iface == "legacy":
                            res = s.sample(a, b)
                            # (N + Nb = 1: the legacy wrapper returns the flattened array instead of a Samples object)
                            cols = np.array(res.samples if hasattr(res, "samples") else res, dtype=float)
                        else:
                            s.warmup(a); s.sample(b)
                            cols = np.array(s.get_samples().samples, dtype=float)
                        cols = cols.reshape(n, -1) if cols.size else np.zeros((n, 0))
                        rec["impl"] = ("ok", [cols[:, j].copy() for j in range(cols.shape[1])], sr.calls)
                    except Exception as ex:
                        rec["impl"] = ("err:" + type(ex).__name__, str(ex)[:100], sr.calls)
                # oracle material: every draw taken alone by a fresh sampler from 0
                fresh = []
                runner = base.StepRunner(cuqi, cfg, target, maxit=maxit, tol=1e-13)
                for e in draws[:need]:
                    fresh.append(runner.step(e, np.zeros(n)))
                rec["fresh"] = fresh
        except Exception as ex:
            rec["build_err"] = f"{type(ex).__name__}: {str(ex)[:120]}"
            recs.append(rec)
            continue
        L1, L2 = rec["leaf"]
        x0v = np.zeros(n) if x0 is None else x0
        need = max(a + b - 1, 0) if iface == "legacy" else a + b
        lines.append(f"loop {iface} {a} {b} {n + 1} " + base.problem_tokens(cfg, L1, L2, gP) + " " + qv(x0v)
                     + "".join(" " + qv(e) for e in draws[:need]))
        rec["line"] = len(lines) - 1
        recs.append(rec)
    outs = ctx.lean.drive(lines)
    hist = {"layout": {}, "soft_mismatch": {}}
    for rec in recs:
        cfg, key = rec["cfg"], rec["key"]
        desc = {**base.cfg_desc(cfg), "a": rec["a"], "b": rec["b"], "x0": None if rec["x0"] is None else rec["x0"].tolist(),
                "draws": [e.tolist() for e in rec.get("draws", [])]}
        ctx.case(f"loop-{cfg['iface']}", desc)
        if "build_err" in rec:
            ctx.note(f"loop: implementation refused {key}: {rec['build_err']}")
            continue
        o = outs[rec["line"]]
        st, cols, calls = rec["impl"]
        n = cfg["n"]
        iface = cfg["iface"]
        need = max(rec["a"] + rec["b"] - 1, 0) if iface == "legacy" else rec["a"] + rec["b"]
        lay = f"{iface}:{'N%d:Nb%d' % (rec['a'], rec['b']) if iface == 'legacy' else 'Nb%d:Ns%d' % (rec['a'], rec['b'])}->{o.split(' ')[0] if not o.startswith('ok') else ('ok:%d' % (0 if o == 'ok empty' else len(pm(o.split(' ')[1]))))}"
        hist["layout"][lay] = hist["layout"].get(lay, 0) + 1
        if not o.startswith("ok"):
            if st != o:
                hist["soft_mismatch"][lay] = hist["soft_mismatch"].get(lay, 0) + 1
                ctx.note(f"{key}: model {o}, implementation {st} (layout of the sample array; not demanded by the property)")
            continue
        mcols = [] if o == "ok empty" else [np.array([float(v) for v in row]) for row in pm(o.split(" ")[1])]
        nsteps = (len(cols) - (1 if (iface == "legacy" and rec["b"] == 0 and len(cols) > 0) else 0)) if st == "ok" else 0
        if st == "ok" and calls < nsteps:
            # oracle: fewer normal vectors drawn than step results stored — two stored samples share a draw (not independent)
            ctx.fail(key + ":draws", desc, f"{nsteps} normal draws for {nsteps} stored step results", f"{calls} draws",
                     "stored samples do not each come from a fresh normal draw (successive draws are not independent)")
            continue
        if st != "ok" or len(cols) != len(mcols) or calls != need:
            hist["soft_mismatch"][lay] = hist["soft_mismatch"].get(lay, 0) + 1
            ctx.note(f"{key}: layout differs — model {len(mcols)} samples / {need} draws, implementation {st} {len(cols) if st == 'ok' else cols} samples / {calls} draws (not demanded by the property)")
            continue
        # which columns are step results, and of which draw
        off = (rec["b"] - 1) if iface == "legacy" else 0       # column j is the result of draw j + off (legacy: column 0 of the un-trimmed array is x0)
        nfail = len(ctx.failures)
        dkeys = []
        for j, (ci, cm) in enumerate(zip(cols, mcols)):
            if base.relerr(ci, cm) > TOL:
                dk = key + (":x0-column" if j + off < 0 else ":state")
                ctx.disagree(dk, {**desc, "column": j}, cm.tolist(), ci.tolist(), "returned sample vs the model's loop (exact CGLS)")
                dkeys.append(dk)
                break
        for j, ci in enumerate(cols):
            tdraw = j + off
            if tdraw < 0:
                continue
            if base.relerr(ci, rec["fresh"][tdraw]) > TOL:
                ctx.fail(key + ":history", {**desc, "column": j, "draw_index": tdraw}, rec["fresh"][tdraw].tolist(), ci.tolist(),
                         "a stored sample is not the draw m + B e of its own normal vector (differs from the single step of a fresh sampler with the same draw)")
                break
        base.explain_ties(ctx, key, desc, dkeys, nfail)
    ctx.extra_cov["loop_stream"] = hist
