"""C11 helper — the lazily inferred default geometry (model `lean/CuqiVerif/Model/C11_geom.lean`).

Distributions of the families that do not insist on a geometry at construction (Gamma, Beta, Cauchy, InverseGamma,
Laplace, Normal) are built WITHOUT a geometry (or with an explicit one of a matching / non-matching dimension), with
parameters that are None, callables of one or two arguments, numbers or arrays.  Random programs apply
condition / `.dim` (`.geometry`) / gradient / sample / logd / model(dist) to the originals and to everything derived.

Correspondence, per op (model = `geo` protocol of Driver/C11.lean): result (dimension / object / value / error CLASS
TypeError-ValueError-NotImplementedError) and whether the receiver's geometry went from undetermined to determined; at the
end, for every original and every returned distribution, the `par_dim` of its geometry (object identities / sharing and the
label `_variable_name` are not compared: a refactoring may copy geometry objects freely).

Oracle (implementation only): the observation `kw -> dim reported by o(**kw)` (every complete binding of the
conditioning variables, values of both candidate lengths) of every original and every returned distribution, and its
own `.dim`-free state (`_geometry` identity, par_dim), must not be changed by an op — the only allowed change is the
re-binding of an UNDETERMINED default geometry of the receiver itself to the inferred dimension, and only when the
object is fully specified (then the inferred dimension is final).  The premature inference on a still conditional
receiver (known finding `lazy-geometry:premature-inference:*`) is reported under that key only when the model
predicts the re-binding for that very op; anything else is `alter:lazy-geometry:*` / `sibling:lazy-geometry:*`.
"""
import itertools, random
import numpy as np
from harness.core import quiet
from harness.props import c01

FAMS = {"gamma": ("Gamma", ["shape", "rate"]), "beta": ("Beta", ["alpha", "beta"]), "cauchy": ("Cauchy", ["location", "scale"]),
        "invgamma": ("InverseGamma", ["shape", "location", "scale"]), "laplace": ("Laplace", ["location", "scale"]),
        "normal": ("Normal", ["mean", "std"])}
KEYS = ["shape", "rate", "alpha", "beta", "location", "scale", "mean", "std", "a1", "a2", "a3", "a4", "a5", "a6", "a7", "a8"]
DNAMES = ["da", "db", "dc", "dd"]
UNKNOWN_KEY = 99


def _exc_code(e):
    if isinstance(e, TypeError):
        return "eT"
    if isinstance(e, NotImplementedError):
        return "eN"
    if isinstance(e, ValueError):
        return "eV"
    return "e?" + type(e).__name__


def _bsum(*xs):
    out = xs[0]
    for x in xs[1:]:
        out = out + x
    return out


class GeoWorld:
    def __init__(self, cuqi, rng, explicit_only=False):
        import cuqi.distribution as CD
        from cuqi.geometry import Continuous1D
        from cuqi.model import Model
        self.n = n = rng.randint(2, 5)
        self.vals = {}                      # key name -> [scalar, array of length n]
        self.dists, self.dtext, self.gtext, self.mtext = [], [], [], []
        self.desc = []
        args = [k for k in KEYS if k[0] == "a" and k[1:].isdigit()]
        rng.shuffle(args)
        nd = rng.randint(2, 4)
        for i in range(nd):
            fam = rng.choice(list(FAMS))
            cls, pars = FAMS[fam]
            kw, slots, sdesc = {}, {}, {}
            for p in pars:
                r = rng.random()
                if r < 0.15:
                    kw[p] = None; slots[p] = f"u{KEYS.index(p)}"; sdesc[p] = "None"
                    self._mkvals(rng, p)
                elif r < 0.5 and args:
                    k = 1 if (rng.random() < 0.7 or len(args) < 2) else 2
                    names = [args.pop() for _ in range(k)]
                    for a in names:
                        self._mkvals(rng, a)
                    kw[p] = c01._named_lambda(names, _bsum)
                    slots[p] = "f" + ".".join(str(KEYS.index(a)) for a in names); sdesc[p] = "lambda " + ",".join(names)
                elif r < 0.8:
                    kw[p] = float(rng.choice([0.5, 0.75, 1.0, 1.5])); slots[p] = "v1"; sdesc[p] = "number"
                else:
                    kw[p] = np.array([rng.choice([0.5, 0.75, 1.0, 1.5]) for _ in range(n)]); slots[p] = f"v{n}"; sdesc[p] = f"array({n})"
            r = rng.random()
            if r < (0.0 if explicit_only else 0.55):
                gopt, gdim = None, None
            else:
                gdim = rng.choice([1, n, n, n + 1])
                gopt = gdim if rng.random() < 0.65 else Continuous1D(gdim)
            with quiet():
                d = getattr(CD, cls)(**kw, name=DNAMES[i]) if gopt is None else getattr(CD, cls)(**kw, geometry=gopt, name=DNAMES[i])
            order = list(d.get_mutable_variables())
            self.dists.append(d)
            self.dtext.append(f"D:{fam}:{i}:{i}:" + (",".join(slots[p] for p in order if p in slots) or "-"))
            self.gtext.append("G:" + ("-" if gdim is None else str(gdim)))
            self.desc.append({"name": DNAMES[i], "family": cls, "params": sdesc, "geometry": (None if gopt is None else (gdim if isinstance(gopt, int) else f"Continuous1D({gdim})"))})
        self.models = []
        for j in range(rng.randint(1, 2)):
            k = rng.choice([1, n])
            with quiet():
                self.models.append(Model(lambda zz, k=k: np.ones(2) * float(np.sum(zz)), range_geometry=2, domain_geometry=k))
            self.mtext.append(f"M:{k}")
        self.fam = [t.split(":")[1] for t in self.dtext]

    def _mkvals(self, rng, key):
        if key not in self.vals:
            self.vals[key] = [float(rng.choice([0.5, 0.75, 1.25])), np.array([rng.choice([0.5, 0.75, 1.25]) for _ in range(self.n)])]

    def heap_text(self):
        return ";".join(self.dtext + self.gtext + self.mtext)


def _vlen(v):
    return 1 if isinstance(v, float) else len(v)


def observe(o, vals):
    """kw -> dim reported by o(**kw), for every complete binding of the conditioning variables with candidate values (<= 16)"""
    out = {}
    try:
        cv = list(o.get_conditioning_variables())
    except Exception as e:  # noqa
        return {"<cv>": _exc_code(e)}
    if any(k not in vals for k in cv):
        return {"<cv>": "unprobed"}
    combos = list(itertools.product((0, 1), repeat=len(cv)))[:8]
    # the observation must not touch the live object (nor anything it shares: a copy's getter labels — and a broken one
    # could update — the geometry object it shares with `o`): it is made on a deep copy of `o`
    import copy as _cp
    try:
        oc = _cp.deepcopy(o)
    except Exception as e:  # noqa
        return {"<deepcopy>": _exc_code(e)}
    for combo in combos:
        kw = {k: vals[k][i] for k, i in zip(cv, combo)}
        try:
            with quiet():
                out[str(combo)] = f"n{oc(**kw).dim}"
        except Exception as e:  # noqa
            out[str(combo)] = _exc_code(e)
    return out


class GeoProgram:
    def __init__(self, cuqi, rng, idx, explicit_only=False):
        self.cuqi, self.rng, self.idx = cuqi, rng, idx
        self.w = GeoWorld(cuqi, rng, explicit_only)
        self.tracked = list(self.w.dists)          # originals, then returned distributions
        self.refs = ["@%d" % i for i in range(len(self.w.dists))]
        self.models = [("@%d" % j, m) for j, m in enumerate(self.w.models)]
        self.ops_txt, self.impl, self.ops_desc = [], [], []
        self.bad = None            # (op index, tracked index, what, before, after, own?)
        self.premature = []        # (op index, tracked index, before, after)
        self.keep = []

    def kw_for(self, names, drop=False):
        kw, txt = {}, []
        for k in names:
            i = self.rng.randint(0, 1)
            kw[k] = self.w.vals[k][i]
            txt.append(f"{KEYS.index(k)}={_vlen(kw[k])}")
        return kw, ("&".join(txt) if txt else ".")

    def choose(self):
        rng = self.rng
        i = rng.randrange(len(self.tracked))
        o, ref = self.tracked[i], self.refs[i]
        cv = list(o.get_conditioning_variables())
        kinds = ["cond"] * 4 + ["dim"] * 3 + ["grad"] * 2 + ["logd"] * 2 + ["apply"] * 2 + (["sample"] * 3 if not cv else ["sample"])
        kind = rng.choice(kinds)
        if kind == "cond":
            if cv and rng.random() < 0.85:
                sub = rng.sample(cv, rng.randint(1, len(cv)))
                kw, txt = self.kw_for(sub)
            elif rng.random() < 0.3:
                kw, txt = {"zz_unknown": 1.0}, f"{UNKNOWN_KEY}=1"
            else:
                kw, txt = {}, "."
            return ("cond", i, ref, kw, f"c:{ref}:{txt}")
        if kind == "dim":
            return ("dim" if rng.random() < 0.6 else "geometry", i, ref, None, f"d:{ref}")
        if kind == "grad":
            return ("grad", i, ref, None, f"g:{ref}")
        if kind == "sample":
            # arrays of the fully specified object must broadcast (lengths 1 or n by construction)
            return ("sample", i, ref, None, f"s:{ref}")
        if kind == "logd":
            names = list(cv)
            if names and rng.random() < 0.15:
                names = names[:-1]
            kw, txt = self.kw_for(names)
            return ("logd", i, ref, kw, f"l:{ref}:{txt}")
        j = rng.randrange(len(self.models))
        return ("apply", i, ref, j, f"a:{self.models[j][0]}:{ref}")

    def run(self, length):
        w = self.w
        obs = [observe(o, w.vals) for o in self.tracked]
        for step in range(length):
            op = self.choose()
            kind, i, ref, arg, txt = op
            o = self.tracked[i]
            k = len(self.ops_txt)
            g0 = o.__dict__.get("_geometry")
            d0 = getattr(g0, "par_dim", None)
            self.keep.append(g0)
            res = None
            try:
                with quiet():
                    if kind == "cond":
                        res = o(**arg)
                        code = "D"
                    elif kind == "dim":
                        code = f"n{o.dim}"
                    elif kind == "geometry":
                        code = f"n{o.geometry.par_dim}"
                    elif kind == "grad":
                        o.gradient(0.4)
                        code = "v"
                    elif kind == "sample":
                        st = np.random.get_state()
                        try:
                            np.random.seed(7)
                            s = o.sample(2)
                        finally:
                            np.random.set_state(st)
                        code = f"n{np.asarray(s.samples).shape[0]}"
                    elif kind == "logd":
                        o.logd(**arg, **{o.name: 0.4})
                        code = "v"
                    else:
                        res = self.models[arg][1](o)
                        code = "M"
            except Exception as e:  # noqa
                code, res = _exc_code(e), None
            # "re-bound" is judged by state, not by object identity (a refactoring may copy geometry objects freely): the
            # receiver's geometry went from undetermined to determined
            rebound = 1 if (d0 is None and getattr(o.__dict__.get("_geometry"), "par_dim", None) is not None) else 0
            self.ops_txt.append(txt)
            self.impl.append(f"{code}:{rebound}")
            self.ops_desc.append({"op": kind, "on": ref, "args": txt, "impl": code})
            if code == "D":
                self.tracked.append(res); self.refs.append("$%d" % k)
            elif code == "M":
                self.models.append(("$%d" % k, res))
            # ---- oracle: nothing that existed before the op is observably changed
            last = (step == length - 1)
            derived = list(range(len(w.dists), len(obs)))
            watch = set(range(len(w.dists))) | {i} | set(derived if (last or len(derived) <= 3) else random.Random(f"{self.idx}-{k}").sample(derived, 3))
            for t, ot in enumerate(self.tracked[:len(obs)]):
                if t not in watch:
                    continue
                now = observe(ot, w.vals)
                if now != obs[t]:
                    diff = {c: (obs[t].get(c), now.get(c)) for c in now if now.get(c) != obs[t].get(c)}
                    if t == i and rebound:
                        self.premature.append((k, t, diff))
                    elif self.bad is None:
                        self.bad = (k, t, diff, t == i)
                    obs[t] = now
            if code == "D":
                obs.append(observe(res, w.vals))
        return self

    def line(self):
        return "geo " + self.w.heap_text() + " " + ";".join(self.ops_txt)

    def summary(self):
        """par_dim of the geometry every tracked distribution ends up with (which of them share one geometry OBJECT and the
        benign label `_variable_name` are implementation detail: recorded in the evidence, not compared)"""
        return ",".join("-" if o.__dict__.get("_geometry").par_dim is None else str(o.__dict__.get("_geometry").par_dim) for o in self.tracked)

    def sharing(self):
        gids = []
        for o in self.tracked:
            if id(o.__dict__.get("_geometry")) not in gids:
                gids.append(id(o.__dict__.get("_geometry")))
        return len(gids), len(self.tracked)


def geometry_programs(ctx, cuqi, n_prog, thorough):
    progs = []
    for idx in range(n_prog):
        rng = random.Random(f"C11-geom-{ctx.seed}-{idx}")
        explicit_only = (idx % 5 == 4)             # every geometry given explicitly: the getter must be a no-op
        try:
            p = GeoProgram(cuqi, rng, idx, explicit_only)
        except Exception as e:  # noqa (constructor refused the parameter combination: not a case)
            ctx.note(f"geometry program {idx} could not be built: {type(e).__name__}: {str(e)[:80]}")
            continue
        p.explicit_only = explicit_only
        try:
            p.run(rng.randint(6, 16 if thorough else 12))
        except Exception as e:  # noqa
            import traceback
            ctx.case("geometry-program-crashed", {"program": idx, "seed": ctx.seed})
            ctx.disagree("crash:lazy-geometry", {"program": idx, "world": p.w.desc, "ops": p.ops_desc}, "program runs", f"{type(e).__name__}: {str(e)[:200]}", traceback.format_exc()[-500:])
            ctx.fail("crash:lazy-geometry", {"program": idx, "world": p.w.desc, "ops": p.ops_desc}, "objects stay usable", f"{type(e).__name__}: {str(e)[:200]}",
                     "inspecting the objects after an op raised")
            continue
        progs.append(p)
    outs = ctx.lean.drive([p.line() for p in progs])
    hist = {"results": {}, "rebound": 0, "premature": 0, "worlds_explicit_only": 0, "families": {}, "undetermined_originals": 0}
    for p, out in zip(progs, outs):
        desc = {"program": p.idx, "seed": ctx.seed, "n": p.w.n, "originals": p.w.desc, "models": p.w.mtext, "ops": p.ops_desc}
        ctx.case("program:lazy-geometry", {"program": p.idx, "seed": ctx.seed, "originals": p.w.desc, "n_ops": len(p.ops_txt)})
        hist["worlds_explicit_only"] += int(p.explicit_only)
        for d in p.w.desc:
            hist["families"][d["family"]] = hist["families"].get(d["family"], 0) + 1
            hist["undetermined_originals"] += int(d["geometry"] is None)
        for r in p.impl:
            c = r.split(":")[0]
            c = "n" if c.startswith("n") else c
            hist["results"][c] = hist["results"].get(c, 0) + 1
            hist["rebound"] += int(r.endswith(":1"))
        hist["premature"] += len(p.premature)
        if out == "bad-op":
            ctx.disagree("driver:bad-op:geo", desc, "bad-op", "ok", "driver could not parse the geometry program"); continue
        body, summ = out.rsplit("|", 1)
        mrecs = body.split(";")
        first = None
        for k, (m, i) in enumerate(zip(mrecs, p.impl)):
            if m != i and first is None:
                first = (k, m, i)
        msumm = ",".join(x.split(".")[1] for x in summ.split(","))
        mshare = len({x.split(".")[0] for x in summ.split(",")})
        hist["sharing_model_eq_impl"] = hist.get("sharing_model_eq_impl", 0) + int(mshare == p.sharing()[0])
        if first is None and msumm != p.summary():
            first = (len(mrecs) - 1, msumm, p.summary())
        okey = None
        # ---- oracle verdicts
        fail_ops = set()
        unpredicted = [x for x in p.premature if not (x[0] < len(mrecs) and mrecs[x[0]].endswith(":1"))]
        for (k, t, diff) in (unpredicted or p.premature)[:1]:
            fail_ops.add(k)
            predicted = k < len(mrecs) and mrecs[k].endswith(":1")
            opk = p.ops_desc[k]["op"]
            if predicted:
                okey = f"lazy-geometry:premature-inference:{opk}"
            else:
                okey = f"alter:lazy-geometry:{opk}"
            ctx.fail(okey, {**desc, "op_index": k, "op": p.ops_desc[k], "object": p.refs[t],
                            "ops_up_to_failure": p.ops_txt[:k + 1]},
                     "the dimension reported by conditioned copies of the receiver is what it was before the op", diff,
                     f"op #{k} ({opk} on {p.refs[t]}) re-bound the receiver's undetermined default geometry to a dimension inferred from only part of "
                     f"its parameters (it is still conditional); copies conditioned afterwards inherit that geometry and report / refuse a different dimension")
        if p.bad is not None:
            k, t, diff, own = p.bad
            fail_ops.add(k)
            opk = p.ops_desc[k]["op"]
            kk = f"{'alter' if own or t < len(p.w.dists) else 'sibling'}:lazy-geometry:{opk}"
            ctx.fail(kk, {**desc, "op_index": k, "op": p.ops_desc[k], "object": p.refs[t], "ops_up_to_failure": p.ops_txt[:k + 1]},
                     "no op changes what an existing object (original or derived) reports through conditioning", diff,
                     f"op #{k} ({opk} on {p.ops_desc[k]['on']}) changed the dimension reported by copies of {p.refs[t]}")
            okey = okey or kk
        if first is not None:
            k, m, i = first
            opk = p.ops_desc[k]["op"] if k < len(p.ops_desc) else "end"
            # a disagreement shares the key of an oracle failure only if it is about the very same op
            ctx.disagree((okey if (okey and k in fail_ops) else None) or f"tie:lazy-geometry:{opk}", {**desc, "op_index": k}, m, i,
                         "model vs implementation: result / re-binding of `_geometry` / final sharing pattern of geometry objects")
    ctx.extra_cov["lazy_geometry"] = hist
    return progs
